package main

// Evaluation of contract expressions to SMT terms in an environment of
// symbolic values.

import (
	"fmt"
	"go/types"
	"math/big"
	"strconv"
	"strings"
)

type Env struct {
	vars   map[string]Value
	st     *State
	fc     *funcCtx
	bound  map[string]string // quantifier-bound variable -> sort
	old    *Env              // environment for old(...)
	heaps  map[string]string // heap override (for old)
	kTerm  string            // value of $k
	kOther map[string]string // $kN for enclosing range loops
}

type cevalErr struct{ msg string }

func cfail(f string, a ...interface{}) { panic(cevalErr{fmt.Sprintf(f, a...)}) }

func typeSort(t string) string {
	switch t {
	case "int", "byte", "rune", "uint", "int64", "uint8", "int32":
		return SInt
	case "bool":
		return SBool
	case "real", "float64":
		return SReal
	case "string":
		return SStr
	}
	if opaqueSort(t) != nil {
		return t
	}
	if strings.HasPrefix(t, "[]") {
		return "[]" + typeSort(t[2:])
	}
	cfail("unknown contract type %q", t)
	return ""
}

func (e *Engine) cevalBool(x CExpr, env *Env) string {
	v := e.cevalScalar(x, env)
	if v.S != SBool {
		cfail("expected bool, got %s in %s", v.S, cexprString(x))
	}
	return v.T
}

func (e *Engine) cevalScalar(x CExpr, env *Env) (res Sc) {
	v := e.ceval(x, env)
	s, ok := v.(Sc)
	if !ok {
		cfail("expected scalar, got %T in %s", v, cexprString(x))
	}
	return s
}

func realLit(s string) string {
	// real literals denote the float64 nearest to the decimal text, exactly as
	// the Go compiler rounds the constants in the code under verification
	f, err := strconv.ParseFloat(s, 64)
	if err != nil {
		cfail("bad real literal %s", s)
	}
	r := new(big.Rat).SetFloat64(f)
	if r == nil {
		cfail("bad real literal %s", s)
	}
	n, d := r.Num(), r.Denom()
	neg := n.Sign() < 0
	ns := new(big.Int).Abs(n).String()
	t := ns + ".0"
	if d.String() != "1" {
		t = "(/ " + ns + ".0 " + d.String() + ".0)"
	}
	if neg {
		t = "(- " + t + ")"
	}
	return t
}

func toReal(a Sc) Sc {
	if a.S == SInt {
		if _, err := strconv.ParseInt(a.T, 10, 64); err == nil {
			return Sc{a.T + ".0", SReal}
		}
		return Sc{app("to_real", a.T), SReal}
	}
	return a
}

func (e *Engine) heapFor(env *Env, sortName string) string {
	if env.heaps != nil {
		if h, ok := env.heaps[sortName]; ok {
			return h
		}
	}
	if env.st == nil {
		cfail("slice contents used without a program state")
	}
	if env.fc != nil {
		return env.fc.heap(env.st, sortName)
	}
	if h, ok := env.st.heaps[sortName]; ok {
		return h
	}
	cfail("no heap for sort %s", sortName)
	return ""
}

func (e *Engine) ceval(x CExpr, env *Env) Value {
	switch n := x.(type) {
	case *CInt:
		return Sc{n.V, SInt}
	case *CReal:
		return Sc{realLit(n.V), SReal}
	case *CStr:
		return Sc{e.literal(n.V), SStr}
	case *CBool:
		if n.V {
			return Sc{"true", SBool}
		}
		return Sc{"false", SBool}
	case *CIdent:
		if s, ok := env.bound[n.Name]; ok {
			if strings.HasPrefix(s, "[]") {
				return ColV{Row: n.Name + ".row", Off: n.Name + ".off", Sort: s[2:]}
			}
			return Sc{n.Name, s}
		}
		if n.Name == "$k" {
			if env.kTerm == "" {
				cfail("$k used outside a range loop invariant")
			}
			return Sc{env.kTerm, SInt}
		}
		if t, ok := env.kOther[n.Name]; ok {
			return Sc{t, SInt}
		}
		if n.Name == "nil" {
			return IfaceV{Nil: "true", Tag: "0"}
		}
		if v, ok := env.vars[n.Name]; ok {
			return v
		}
		if sp, ok := e.cs.Specs[n.Name]; ok && len(sp.Params) == 0 {
			return Sc{n.Name, typeSort(sp.Result)}
		}
		cfail("unknown identifier %q", n.Name)
	case *CUnary:
		v := e.cevalScalar(n.X, env)
		if n.Op == "!" {
			return Sc{not(v.T), SBool}
		}
		return Sc{app("-", v.T), v.S}
	case *CBinary:
		return e.cevalBinary(n, env)
	case *CIte:
		c := e.cevalBool(n.C, env)
		a := e.cevalScalar(n.A, env)
		b := e.cevalScalar(n.B, env)
		if a.S != b.S {
			if a.S == SReal || b.S == SReal {
				a, b = toReal(a), toReal(b)
			} else {
				cfail("ite branches of different sorts")
			}
		}
		return Sc{fmt.Sprintf("(ite %s %s %s)", c, a.T, b.T), a.S}
	case *CQuant:
		nb := map[string]string{}
		for k, v := range env.bound {
			nb[k] = v
		}
		var binders, guards []string
		for _, v := range n.Vars {
			s := typeSort(v.Type)
			nb[v.Name] = s
			binders = append(binders, fmt.Sprintf("(%s %s)", v.Name, s))
			switch v.Type {
			case "byte", "uint8":
				guards = append(guards, fmt.Sprintf("(<= 0 %s)", v.Name), fmt.Sprintf("(< %s 256)", v.Name))
			case "uint":
				guards = append(guards, fmt.Sprintf("(<= 0 %s)", v.Name))
			}
		}
		env2 := *env
		env2.bound = nb
		body := e.cevalBool(n.Body, &env2)
		if len(guards) > 0 {
			if n.Forall {
				body = implies(and(guards...), body)
			} else {
				body = and(append(guards, body)...)
			}
		}
		if len(n.Triggers) > 0 {
			var pats []string
			for _, tr := range n.Triggers {
				var ts []string
				for _, t := range tr {
					ts = append(ts, e.cevalScalar(t, &env2).T)
				}
				pats = append(pats, ":pattern ("+strings.Join(ts, " ")+")")
			}
			body = "(! " + body + " " + strings.Join(pats, " ") + ")"
		}
		q := "exists"
		if n.Forall {
			q = "forall"
		}
		return Sc{fmt.Sprintf("(%s (%s) %s)", q, strings.Join(binders, " "), body), SBool}
	case *CIndex:
		base := e.ceval(n.X, env)
		idx := e.cevalScalar(n.I, env)
		switch b := base.(type) {
		case Sc:
			if b.S != SStr {
				cfail("indexing a %s", b.S)
			}
			return Sc{app("gs.at", b.T, idx.T), SInt}
		case SliceV:
			es, ok := scalarSort(b.Elem)
			if !ok {
				if env.fc == nil || env.st == nil {
					cfail("contract index into slice of structs needs a program state")
				}
				return env.fc.heapLoadX(env.st, b.Elem, b.Ref, elemIx(b.Off, idx.T), len(env.bound) == 0)
			}
			return Sc{app("select", app("select", e.heapFor(env, es), b.Ref), elemIx(b.Off, idx.T)), es}
		case OSeqV:
			return b.at(idx.T)
		case ColV:
			return Sc{app("select", b.Row, elemIx(b.Off, idx.T)), b.Sort}
		case MapV:
			if b.Global != nil {
				v, _ := e.tableLookup(env.st, env.fc, b.Global, idx)
				return v
			}
			ms := env.st.maps[b.ID]
			if ms != nil && ms.VT != nil {
				return e.mapLoadStruct(env.st, ms, idx.T)
			}
			if ms == nil || ms.VS == "" {
				cfail("contract lookup in unsupported map")
			}
			return Sc{fmt.Sprintf("(ite (select %s %s) (select %s %s) %s)", ms.Dom, idx.T, ms.Val, idx.T, zeroOfSort(ms.VS)), ms.VS}
		}
		cfail("cannot index %T", base)
	case *CSlice:
		b := e.cevalScalar(n.X, env)
		if b.S != SStr {
			cfail("contract slicing supports strings only")
		}
		lo, hi := "0", app("gs.len", b.T)
		if n.Lo != nil {
			lo = e.cevalScalar(n.Lo, env).T
		}
		if n.Hi != nil {
			hi = e.cevalScalar(n.Hi, env).T
		}
		return Sc{app("gs.sub", b.T, lo, hi), SStr}
	case *CSel:
		base := e.ceval(n.X, env)
		if p, ok := base.(PtrV); ok && !p.Heap && p.OSeq == nil && env.st != nil {
			// implicit dereference, as in Go
			if cv, ok := env.st.cells[p.Cell]; ok {
				base = cv
				for _, f := range p.Path {
					if sv, ok := base.(StructV); ok {
						base = sv.F[f]
					}
				}
			}
		}
		if sc, ok := base.(Sc); ok {
			if ot := opaqueSort(sc.S); ot != nil {
				if v, ok := opaqueField(ot, sc.T, n.Name); ok {
					return v
				}
				cfail("no field %s in %s", n.Name, ot.GoType)
			}
		}
		if sl, ok := base.(SliceV); ok {
			// a column of a slice of structs: x.Field where x is []Struct
			if stt, isStruct := sl.Elem.Underlying().(*types.Struct); isStruct && env.fc != nil && env.st != nil {
				for i := 0; i < stt.NumFields(); i++ {
					if stt.Field(i).Name() != n.Name {
						continue
					}
					ss, ok := scalarSort(stt.Field(i).Type())
					if !ok {
						cfail("column %s is not scalar", n.Name)
					}
					for _, k := range leafKeysForPath(sl.Elem, []int{i}) {
						return ColV{Row: app("select", env.fc.heap(env.st, k), sl.Ref), Off: sl.Off, Len: sl.Len, Sort: ss}
					}
				}
			}
			cfail("no column %s", n.Name)
		}
		sv, ok := base.(StructV)
		if !ok {
			cfail("field %s of %T", n.Name, base)
		}
		st := structOf(sv.T)
		for i := 0; i < st.NumFields(); i++ {
			if st.Field(i).Name() == n.Name {
				return sv.F[i]
			}
		}
		cfail("no field %s", n.Name)
	case *CCall:
		return e.cevalCall(n, env)
	}
	cfail("cannot evaluate %s", cexprString(x))
	return nil
}

func (e *Engine) cevalBinary(n *CBinary, env *Env) Value {
	switch n.Op {
	case "&&", "||", "==>", "<==>":
		a := e.cevalBool(n.X, env)
		b := e.cevalBool(n.Y, env)
		switch n.Op {
		case "&&":
			return Sc{and(a, b), SBool}
		case "||":
			return Sc{or(a, b), SBool}
		case "==>":
			return Sc{implies(a, b), SBool}
		default:
			return Sc{app("=", a, b), SBool}
		}
	}
	av := e.ceval(n.X, env)
	bv := e.ceval(n.Y, env)
	if ia, ok := av.(IfaceV); ok {
		ib, ok2 := bv.(IfaceV)
		if !ok2 {
			cfail("interface compared with %T", bv)
		}
		var eq string
		switch {
		case ib.Nil == "true":
			eq = ia.Nil
		case ia.Nil == "true":
			eq = ib.Nil
		default:
			cfail("interface values can only be compared with nil")
		}
		if n.Op == "!=" {
			return Sc{not(eq), SBool}
		}
		return Sc{eq, SBool}
	}
	a, ok1 := av.(Sc)
	b, ok2 := bv.(Sc)
	if !ok1 || !ok2 {
		cfail("operator %s on %T, %T in %s", n.Op, av, bv, cexprString(n))
	}
	if a.S != b.S && (a.S == SReal || b.S == SReal) && (a.S == SInt || b.S == SInt) {
		a, b = toReal(a), toReal(b)
	}
	if a.S != b.S {
		cfail("operator %s on sorts %s, %s in %s", n.Op, a.S, b.S, cexprString(n))
	}
	switch n.Op {
	case "+":
		if a.S == SStr {
			return Sc{catTerm(a.T, b.T), SStr}
		}
		return Sc{app("+", a.T, b.T), a.S}
	case "-":
		return Sc{app("-", a.T, b.T), a.S}
	case "*":
		return Sc{app("*", a.T, b.T), a.S}
	case "/":
		if a.S == SReal {
			return Sc{app("/", a.T, b.T), SReal}
		}
		return Sc{app("go.div", a.T, b.T), SInt}
	case "%":
		return Sc{app("go.mod", a.T, b.T), SInt}
	case "==", "!=":
		var eq string
		if a.S == SStr {
			eq = app("gs.eq", a.T, b.T)
		} else {
			eq = app("=", a.T, b.T)
		}
		if n.Op == "!=" {
			return Sc{not(eq), SBool}
		}
		return Sc{eq, SBool}
	case "<", "<=", ">", ">=":
		if a.S == SStr {
			switch n.Op {
			case "<":
				return Sc{app("gs.lt", a.T, b.T), SBool}
			case "<=":
				return Sc{not(app("gs.lt", b.T, a.T)), SBool}
			case ">":
				return Sc{app("gs.lt", b.T, a.T), SBool}
			default:
				return Sc{not(app("gs.lt", a.T, b.T)), SBool}
			}
		}
		return Sc{app(n.Op, a.T, b.T), SBool}
	}
	cfail("unknown operator %s", n.Op)
	return nil
}

func (e *Engine) cevalCall(n *CCall, env *Env) Value {
	arg := func(i int) Value { return e.ceval(n.Args[i], env) }
	sarg := func(i int) Sc { return e.cevalScalar(n.Args[i], env) }
	switch n.Fn {
	case "len":
		switch v := arg(0).(type) {
		case Sc:
			return Sc{app("gs.len", v.T), SInt}
		case SliceV:
			return Sc{v.Len, SInt}
		case OSeqV:
			return Sc{v.lenTerm(), SInt}
		}
		cfail("len of unsupported value")
	case "cap":
		if v, ok := arg(0).(SliceV); ok {
			return Sc{v.Cap, SInt}
		}
		cfail("cap of unsupported value")
	case "offset":
		// offset(s): where the slice starts inside its backing row (ghost; for aliasing arguments)
		if v, ok := arg(0).(SliceV); ok {
			return Sc{v.Off, SInt}
		}
		cfail("offset of unsupported value")
	case "old":
		if env.old == nil {
			cfail("old() not available here")
		}
		oe := *env.old
		oe.bound = env.bound
		oe.kTerm = env.kTerm
		oe.kOther = env.kOther
		return e.ceval(n.Args[0], &oe)
	case "pre":
		// pre(N, e): the value of e when loop N was entered (before its first iteration)
		ni, ok := n.Args[0].(*CInt)
		if !ok || len(n.Args) != 2 || env.st == nil {
			cfail("pre(N, expr) needs a loop ordinal")
		}
		var ord int
		fmt.Sscanf(ni.V, "%d", &ord)
		snap, ok := env.st.loopPre[ord]
		if !ok {
			cfail("pre(%d, ...): loop %d has not been entered on this path", ord, ord)
		}
		pe := *env
		pe.vars = snap
		return e.ceval(n.Args[1], &pe)
	case "ascii":
		return Sc{app("gs.ascii", sarg(0).T), SBool}
	case "real", "float64":
		return toReal(sarg(0))
	case "floor":
		return Sc{app("to_int", sarg(0).T), SInt}
	case "trunc": // Go's int(float)
		r := sarg(0).T
		return Sc{fmt.Sprintf("(ite (>= %s 0.0) (to_int %s) (- (to_int (- %s))))", r, r, r), SInt}
	case "chr", "string":
		if sv, ok := arg(0).(SliceV); ok {
			if env.fc == nil || env.st == nil {
				cfail("string(slice) needs a program state")
			}
			return env.fc.stringOfSlice(env.st, sv)
		}
		a := sarg(0)
		if a.S == SStr {
			return a
		}
		return Sc{app("gs.chr", a.T), SStr}
	case "min":
		return Sc{app("go.min", sarg(0).T, sarg(1).T), SInt}
	case "max":
		return Sc{app("go.max", sarg(0).T, sarg(1).T), SInt}
	case "closed":
		if ch, ok := arg(0).(ChanV); ok && env.st != nil && env.st.chans[ch.ID] != nil {
			return Sc{env.st.chans[ch.ID].Closed, SBool}
		}
		cfail("closed() of unknown channel")
	case "nsent":
		if ch, ok := arg(0).(ChanV); ok && env.st != nil && env.st.chans[ch.ID] != nil {
			return Sc{env.st.chans[ch.ID].NSent, SInt}
		}
		cfail("nsent() of unknown channel")
	case "ghost":
		id, ok := n.Args[0].(*CIdent)
		if !ok || env.st == nil {
			cfail("ghost(name)")
		}
		if v, ok := env.st.ghost[id.Name]; ok {
			return v
		}
		cfail("unknown ghost variable %s", id.Name)
	case "with":
		// with(x, Field, v): the opaque value x with one scalar field replaced
		if len(n.Args) != 3 {
			cfail("with(value, Field, newValue)")
		}
		id, ok := n.Args[1].(*CIdent)
		base := sarg(0)
		ot := opaqueSort(base.S)
		if !ok || ot == nil {
			cfail("with(value, Field, newValue) needs an opaque value and a field name")
		}
		fv, ok2 := opaqueField(ot, base.T, id.Name)
		fsc, ok3 := fv.(Sc)
		if !ok2 || !ok3 {
			cfail("with(): %s is not a scalar field of %s", id.Name, ot.GoType)
		}
		nv := sarg(2)
		if nv.S != fsc.S {
			cfail("with(): %s has sort %s, got %s", id.Name, fsc.S, nv.S)
		}
		return Sc{app(ot.Sort+".set."+id.Name, base.T, nv.T), base.S}
	case "has":
		// has(m, k): k is a key of the map m
		mv, ok := arg(0).(MapV)
		if !ok || env.st == nil || env.st.maps[mv.ID] == nil {
			cfail("has(map, key)")
		}
		return Sc{app("select", env.st.maps[mv.ID].Dom, sarg(1).T), SBool}
	case "sameRow":
		a, ok1 := arg(0).(SliceV)
		b, ok2 := arg(1).(SliceV)
		if !ok1 || !ok2 {
			cfail("sameRow() needs two slices")
		}
		return Sc{app("=", a.Ref, b.Ref), SBool}
	case "fresh":
		// storage of the slice was allocated during this call
		if v, ok := arg(0).(SliceV); ok && env.st != nil {
			return Sc{app(">=", v.Ref, env.st.entryBase), SBool}
		}
		cfail("fresh() of unsupported value")
	}
	sp, ok := e.cs.Specs[n.Fn]
	if !ok {
		cfail("unknown function %q in contract", n.Fn)
	}
	if len(sp.Params) != len(n.Args) {
		cfail("%s expects %d arguments", n.Fn, len(sp.Params))
	}
	var as []string
	for i, p := range sp.Params {
		ps := typeSort(p.Type)
		if strings.HasPrefix(ps, "[]") {
			switch cv := arg(i).(type) {
			case ColV:
				if cv.Sort != ps[2:] {
					cfail("argument %d of %s: column of %s, want %s", i+1, n.Fn, cv.Sort, ps[2:])
				}
				as = append(as, cv.Row, cv.Off)
			case SliceV:
				es, ok := scalarSort(cv.Elem)
				if !ok || es != ps[2:] {
					cfail("argument %d of %s: slice element sort mismatch", i+1, n.Fn)
				}
				as = append(as, app("select", e.heapFor(env, es), cv.Ref), cv.Off)
			default:
				cfail("argument %d of %s must be a slice or a column", i+1, n.Fn)
			}
			continue
		}
		a := sarg(i)
		if a.S != ps {
			if ps == SReal && a.S == SInt {
				a = toReal(a)
			} else {
				cfail("argument %d of %s: want %s, got %s", i+1, n.Fn, ps, a.S)
			}
		}
		as = append(as, a.T)
	}
	if len(as) == 0 {
		return Sc{n.Fn, typeSort(sp.Result)}
	}
	return Sc{app(n.Fn, as...), typeSort(sp.Result)}
}

// ---- spec functions to SMT ----

func (e *Engine) specDeclSMT(id string) string {
	sp := e.cs.Specs[id]
	var ps []string
	for _, p := range sp.Params {
		s := typeSort(p.Type)
		if strings.HasPrefix(s, "[]") {
			ps = append(ps, "(Array Int "+s[2:]+")", "Int")
			continue
		}
		ps = append(ps, s)
	}
	if sp.Def != nil || sp.Table != "" {
		return "" // emitted as define-fun together with axioms
	}
	return fmt.Sprintf("(declare-fun %s (%s) %s)\n", id, strings.Join(ps, " "), typeSort(sp.Result))
}

func (e *Engine) specAxiomsSMT(id string) string {
	sp := e.cs.Specs[id]
	var b strings.Builder
	bound := map[string]string{}
	var binders, names []string
	for _, p := range sp.Params {
		s := typeSort(p.Type)
		bound[p.Name] = s
		if strings.HasPrefix(s, "[]") {
			binders = append(binders, fmt.Sprintf("(%s.row (Array Int %s))", p.Name, s[2:]), fmt.Sprintf("(%s.off Int)", p.Name))
			names = append(names, p.Name+".row", p.Name+".off")
			continue
		}
		binders = append(binders, fmt.Sprintf("(%s %s)", p.Name, s))
		names = append(names, p.Name)
	}
	env := &Env{vars: map[string]Value{}, bound: bound}
	if sp.Table != "" {
		b.WriteString(e.tableDefineFun(sp))
	} else if sp.Def != nil {
		body := e.cevalScalar(sp.Def, env)
		if body.S != typeSort(sp.Result) && typeSort(sp.Result) == SReal {
			body = toReal(body)
		}
		b.WriteString(fmt.Sprintf("(define-fun %s (%s) %s %s)\n", id, strings.Join(binders, " "), typeSort(sp.Result), body.T))
	}
	for _, ax := range sp.Axioms {
		t := e.cevalBool(ax.E, env)
		if len(binders) == 0 {
			b.WriteString("(assert " + t + ")\n")
			continue
		}
		pat := app(id, names...)
		if sp.Def != nil || sp.Table != "" || !strings.Contains(t, "("+id+" ") {
			b.WriteString(fmt.Sprintf("(assert (forall (%s) %s))\n", strings.Join(binders, " "), t))
		} else {
			b.WriteString(fmt.Sprintf("(assert (forall (%s) (! %s :pattern (%s))))\n", strings.Join(binders, " "), t, pat))
		}
	}
	return b.String()
}

func (e *Engine) specSMT(id string) string {
	defer func() {
		if r := recover(); r != nil {
			if ce, ok := r.(cevalErr); ok {
				panic(cevalErr{"spec function " + id + ": " + ce.msg})
			}
			panic(r)
		}
	}()
	return e.specDeclSMT(id) + e.specAxiomsSMT(id)
}

// ---- environments ----

// entryEnv: parameter names denote entry values.
func (fc *funcCtx) entryEnv(st *State) *Env {
	env := &Env{vars: map[string]Value{}, st: st, fc: fc}
	for k, v := range st.entryVals {
		env.vars[k] = v
	}
	old := &Env{vars: env.vars, st: st, fc: fc, heaps: st.oldHeaps}
	env.old = old
	return env
}

// localEnv: names denote the current contents of the local variables;
// old(x) the entry value of parameter x.
func (fc *funcCtx) localEnv(st *State, l *Loop) *Env {
	env := &Env{vars: map[string]Value{}, st: st, fc: fc}
	for name, cell := range st.named {
		if v, ok := st.cells[cell]; ok {
			env.vars[name] = v
		}
	}
	// locals renamed since the contract was written are reachable under their old names
	// (before parameters are filled in: a renamed parameter that the function re-assigns must
	// denote its current value, not its entry value)
	for old, cur := range fc.rename {
		if v, ok := env.vars[cur]; ok {
			if _, clash := env.vars[old]; !clash {
				env.vars[old] = v
			}
		}
	}
	// parameters that are never re-assigned may have no cell of their own
	for k, v := range st.entryVals {
		if _, ok := env.vars[k]; !ok {
			env.vars[k] = v
		}
		if _, ok := env.vars[k+"$1"]; !ok {
			env.vars[k+"$1"] = v
		}
	}
	oldVars := map[string]Value{}
	for k, v := range st.entryVals {
		oldVars[k] = v
	}
	env.old = &Env{vars: oldVars, st: st, fc: fc, heaps: st.oldHeaps}
	// $kN: completed iterations of the enclosing range loop N, seen from inside its body
	env.kOther = map[string]string{}
	for _, fr := range st.loops {
		if fr.L.KCell == nil || fr.L == l {
			continue
		}
		if v, ok := st.cells[fr.L.KCell].(Sc); ok {
			env.kOther[fmt.Sprintf("$k%d", fr.L.Ordinal)] = plus(v.T, smtInt(int64(fr.L.KOffBody)))
		}
	}
	if l != nil && l.KCell != nil {
		if v, ok := st.cells[l.KCell].(Sc); ok {
			if l.KOff == 0 {
				env.kTerm = v.T
			} else {
				env.kTerm = app("+", v.T, smtInt(int64(l.KOff)))
			}
		}
	}
	return env
}
