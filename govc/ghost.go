package main

import (
	"strings"

	"golang.org/x/tools/go/ssa"
)

// Ghost protocol state: WaitGroup counter, channel traces.

func (fc *funcCtx) waitGroup(st *State, ins ssa.Instruction, key string, args []Value) Value {
	fc.e.mu.Lock()
	fc.e.used["engine model: sync.WaitGroup as a ghost counter (Add/Done/Wait)"] = true
	fc.e.mu.Unlock()
	cur, ok := st.ghost["wg"].(Sc)
	if !ok {
		cur = Sc{st.freshConst("wg", SInt), SInt}
		st.assume(app("<=", "0", cur.T))
	}
	switch key {
	case "sync.WaitGroup.Add":
		d := args[1].(Sc)
		st.ghost["wg"] = Sc{app("+", cur.T, d.T), SInt}
	case "sync.WaitGroup.Done":
		fc.oblige(st, "wg-done", fc.site(ins.Pos(), "call"), app(">", cur.T, "0"), "Done is matched by an earlier Add")
		st.ghost["wg"] = Sc{app("-", cur.T, "1"), SInt}
	case "sync.WaitGroup.Wait":
		st.ghost["wg"] = Sc{"0", SInt}
	}
	return TupleV{}
}

// ghostOnSend: `note send <ch> after-closed <other>` makes every send on <ch>
// carry the obligation that <other> has already been closed (a consumer that
// drains <other> first can then never be blocked by this send).
// chanElemAscii: `note chan-elements <ch> ascii` — every value sent on <ch> is ASCII
// text (obligation at each send, assumption at each receive).
func (fc *funcCtx) chanElemAscii(name string) bool {
	for _, n := range fc.con.Notes {
		var ch, what string
		if _, err := fmtSscanf(n, "chan-elements %s %s", &ch, &what); err == nil && ch == name && what == "ascii" {
			return true
		}
	}
	return false
}

func (fc *funcCtx) ghostOnSend(st *State, name string, x *ssa.Send) {
	if fc.chanElemAscii(name) {
		if v, ok := fc.val(st, x.X).(Sc); ok && v.S == SStr {
			fc.oblige(st, "chan-elements", name+"/"+fc.site(x.Pos(), "send"), app("gs.ascii", v.T), "every value sent on "+name+" is ASCII text")
		}
	}
	// `note chan-send <ch> <expr>`: every value sent on <ch> satisfies <expr> (written over `sent`,
	// the parameters and the locals), an obligation at each send
	for _, n := range fc.con.Notes {
		pfx := "chan-send " + name + " "
		if !strings.HasPrefix(n, pfx) {
			continue
		}
		ex, err := ParseCExpr(strings.TrimPrefix(n, pfx))
		if err != nil {
			cfail("note chan-send: %v", err)
		}
		env := fc.localEnv(st, nil)
		env.vars["sent"] = fc.val(st, x.X)
		fc.oblige(st, "chan-send", name+"/"+fc.site(x.Pos(), "send"), fc.e.cevalBool(ex, env), "every value sent on "+name+" satisfies "+strings.TrimPrefix(n, pfx))
	}
	for _, n := range fc.con.Notes {
		var ch, other string
		if _, err := fmtSscanf(n, "send %s after-closed %s", &ch, &other); err == nil && ch == name {
			if v, ok := st.entryVals[other].(ChanV); ok {
				if cs := st.chans[v.ID]; cs != nil {
					fc.oblige(st, "chan-send-after-close", name+"/"+fc.site(x.Pos(), "send"), cs.Closed, "send on "+name+" happens only after "+other+" has been closed")
				}
			}
		}
	}
}

// returnGhostChecks: protocol obligations at function exit named by the contract notes:
//
//	note closes <chan>      -> the channel parameter is closed on every return path
func (fc *funcCtx) returnGhostChecks(st *State) {
	for _, n := range fc.con.Notes {
		var ch string
		if _, err := fmtSscanf(n, "closes %s", &ch); err == nil && ch != "" {
			if v, ok := st.entryVals[ch].(ChanV); ok {
				if cs := st.chans[v.ID]; cs != nil {
					fc.oblige(st, "chan-closed-at-exit", ch, cs.Closed, "channel "+ch+" is closed when the function returns")
				}
			}
		}
	}
}
