package main

// Witness runs: the contract of a function, as proved, is confronted with executions of
// the real function. A generated in-package test (injected with -overlay, nothing is written
// into the repository) calls the function on seeded inputs and prints arguments and results;
// for every execution whose arguments satisfy the preconditions, each `ensures` clause
// (including `ensures-bounded` ones) instantiated with the concrete arguments and results
// must be provable from the spec functions' axioms alone. This closes the loop between
// "the verifier accepts the contract for its reading of the code" and "the code that runs
// behaves as the contract says": a disagreement shows an input on which the real function
// contradicts its contract (or on which the contract cannot be evaluated).
//
// Supported signatures: parameters and results of basic types (string, integers, rune,
// byte, bool) plus a trailing error result. float64 is left out (contracts are in real
// arithmetic).

import (
	"bytes"
	"encoding/json"
	"fmt"
	"go/constant"
	"go/types"
	"math/big"
	"os"
	"os/exec"
	"path/filepath"
	"sort"
	"strconv"
	"strings"
	"sync"

	"golang.org/x/tools/go/ssa"
)

type WitnessSpec struct {
	Func         string              `json:"func"`
	N            int                 `json:"n"`
	MaxLen       int                 `json:"max_len"`
	Alphabet     string              `json:"alphabet"`
	Values       map[string][]string `json:"values"` // parameter name -> the strings to draw from
	Ints         map[string][2]int   `json:"ints"`   // parameter name -> [lo, hi]
	Inconclusive []string            `json:"inconclusive"`
}

var witnessMu sync.Mutex

type witnessSample struct {
	F     string        `json:"f"`
	Args  []interface{} `json:"args"`
	Res   []interface{} `json:"res"`
	Panic string        `json:"panic"`
}

type WitnessReport struct {
	Func        string         `json:"function"`
	Samples     int            `json:"executions"`
	Accepted    int            `json:"executions_within_precondition"`
	Clauses     map[string]int `json:"executions_proved_per_clause"`
	Skipped     []string       `json:"clauses_not_evaluated"`
	Command     string         `json:"command"`
	Unsupported string         `json:"unsupported,omitempty"`
}

func basicKind(t types.Type) string {
	b, ok := t.Underlying().(*types.Basic)
	if !ok {
		return ""
	}
	switch {
	case b.Kind() == types.String:
		return "string"
	case b.Kind() == types.Bool:
		return "bool"
	case b.Kind() == types.Int32 && t.String() == "rune", b.Kind() == types.Int32:
		return "rune"
	case b.Kind() == types.Uint8:
		return "byte"
	case b.Info()&types.IsInteger != 0:
		return "int"
	case b.Kind() == types.Float64:
		return "float"
	}
	return ""
}

func isErrorType(t types.Type) bool { return t.String() == "error" }

// witnessTestSource generates the in-package test for the functions of one package.
func (e *Engine) witnessTestSource(pkg *ssa.Package, specs []WitnessSpec, seed int64, tier string) (string, map[string]string) {
	unsupported := map[string]string{}
	needStrconv := false
	var b strings.Builder
	fmt.Fprintf(&b, "package %s\n\nimport (\n\t\"encoding/json\"\n\t\"fmt\"\n\t\"math/rand\"\n\t\"testing\"\nSTRCONVIMPORT)\n\n", pkg.Pkg.Name())
	b.WriteString(`func zzwStr(r *rand.Rand, alpha string, max int, i int) string {
	n := r.Intn(max + 1)
	if i < 2 {
		n = i
	}
	bs := make([]byte, n)
	for k := range bs {
		bs[k] = alpha[r.Intn(len(alpha))]
	}
	return string(bs)
}

func zzwErr(err error) interface{} {
	if err == nil {
		return nil
	}
	return map[string]string{"err": err.Error()}
}

func zzwEmit(f string, args, res []interface{}, p string) {
	out, _ := json.Marshal(map[string]interface{}{"f": f, "args": args, "res": res, "panic": p})
	fmt.Printf("GOVC-WITNESS %s\n", out)
}

func TestZZGovcWitness(t *testing.T) {
`)
	for _, ws := range specs {
		full := e.fullKey(ws.Func)
		fn := e.lookupFunc(full)
		con := e.cs.Funcs[full]
		if fn == nil || con == nil {
			unsupported[ws.Func] = "function or contract not found"
			continue
		}
		if fn.Signature.Recv() != nil {
			unsupported[ws.Func] = "methods are not supported"
			continue
		}
		n := ws.N
		if n == 0 {
			n = 24
		}
		if tier == "thorough" {
			n *= 8
		}
		maxLen := ws.MaxLen
		if maxLen == 0 {
			maxLen = 8
		}
		alpha := ws.Alphabet
		if alpha == "" {
			alpha = "ACGTUacgtuNRYKMSWBDHVn"
		}
		ps := fn.Signature.Params()
		var gens, argNames, emitArgs []string
		ok := true
		for i := 0; i < ps.Len(); i++ {
			name := con.Params[i]
			a := fmt.Sprintf("a%d", i)
			argNames = append(argNames, a)
			ts := types.TypeString(ps.At(i).Type(), func(*types.Package) string { return "" })
			switch basicKind(ps.At(i).Type()) {
			case "string":
				if vs, has := ws.Values[name]; has {
					var q []string
					for _, v := range vs {
						q = append(q, strconv.Quote(v))
					}
					gens = append(gens, fmt.Sprintf("%s := %s([]string{%s}[r.Intn(%d)])", a, ts, strings.Join(q, ", "), len(vs)))
				} else {
					gens = append(gens, fmt.Sprintf("%s := %s(zzwStr(r, %s, %d, i))", a, ts, strconv.Quote(alpha), maxLen))
				}
				emitArgs = append(emitArgs, "string("+a+")")
			case "bool":
				gens = append(gens, fmt.Sprintf("%s := r.Intn(2) == 0", a))
				emitArgs = append(emitArgs, a)
			case "rune", "byte":
				gens = append(gens, fmt.Sprintf("%s := %s(%s[r.Intn(%d)])", a, ts, strconv.Quote(alpha), len(alpha)))
				emitArgs = append(emitArgs, "int("+a+")")
			case "int":
				lo, hi := -2, 12
				if rg, has := ws.Ints[name]; has {
					lo, hi = rg[0], rg[1]
				}
				gens = append(gens, fmt.Sprintf("%s := %s(r.Intn(%d) + (%d))", a, ts, hi-lo+1, lo))
				emitArgs = append(emitArgs, "int("+a+")")
			default:
				ok = false
			}
		}
		rs := fn.Signature.Results()
		var resNames, emitRes []string
		for i := 0; i < rs.Len(); i++ {
			rn := fmt.Sprintf("r%d", i)
			resNames = append(resNames, rn)
			switch basicKind(rs.At(i).Type()) {
			case "string":
				emitRes = append(emitRes, "string("+rn+")")
			case "bool":
				emitRes = append(emitRes, rn)
			case "rune", "byte", "int":
				emitRes = append(emitRes, "int("+rn+")")
			case "float":
				// exact: the shortest text that parses back to the same float64
				emitRes = append(emitRes, "map[string]string{\"float\": strconv.FormatFloat(float64("+rn+"), 'g', -1, 64)}")
				needStrconv = true
			default:
				if isErrorType(rs.At(i).Type()) {
					emitRes = append(emitRes, "zzwErr("+rn+")")
				} else {
					ok = false
				}
			}
		}
		if !ok || rs.Len() == 0 {
			unsupported[ws.Func] = "signature has parameters or results that are not basic types"
			continue
		}
		fmt.Fprintf(&b, "\t{\n\t\tr := rand.New(rand.NewSource(%d))\n\t\tfor i := 0; i < %d; i++ {\n", seed*7919+int64(len(ws.Func)), n)
		for _, g := range gens {
			b.WriteString("\t\t\t" + g + "\n")
		}
		fmt.Fprintf(&b, "\t\t\tfunc() {\n\t\t\t\tdefer func() {\n\t\t\t\t\tif p := recover(); p != nil {\n\t\t\t\t\t\tzzwEmit(%q, []interface{}{%s}, nil, fmt.Sprint(p))\n\t\t\t\t\t}\n\t\t\t\t}()\n",
			ws.Func, strings.Join(emitArgs, ", "))
		fmt.Fprintf(&b, "\t\t\t\t%s := %s(%s)\n", strings.Join(resNames, ", "), fn.Name(), strings.Join(argNames, ", "))
		fmt.Fprintf(&b, "\t\t\t\tzzwEmit(%q, []interface{}{%s}, []interface{}{%s}, \"\")\n\t\t\t}()\n\t\t}\n\t}\n", ws.Func, strings.Join(emitArgs, ", "), strings.Join(emitRes, ", "))
	}
	b.WriteString("}\n")
	src := b.String()
	if needStrconv {
		src = strings.Replace(src, "STRCONVIMPORT", "\t\"strconv\"\n", 1)
	} else {
		src = strings.Replace(src, "STRCONVIMPORT", "", 1)
	}
	return src, unsupported
}

func (e *Engine) fullKey(key string) string {
	if strings.HasPrefix(key, "poly.") {
		return modPath + "." + strings.TrimPrefix(key, "poly.")
	}
	if strings.HasPrefix(key, modPath) {
		return key
	}
	return modPath + "/" + key
}

// runWitness executes the functions and turns every (function, clause) into an obligation.
func (e *Engine) runWitness(repo, work string, specs []WitnessSpec, seed int64, tier string, secs int) ([]WitnessReport, []Failure) {
	var reports []WitnessReport
	var failures []Failure
	byPkg := map[*ssa.Package][]WitnessSpec{}
	var pkgs []*ssa.Package
	for _, ws := range specs {
		fn := e.lookupFunc(e.fullKey(ws.Func))
		if fn == nil {
			failures = append(failures, Failure{Obligation: ws.Func + "/witness/attach", Detail: "function not found (contract drift)", Backend: "attach", NoInput: true})
			continue
		}
		if byPkg[fn.Pkg] == nil {
			pkgs = append(pkgs, fn.Pkg)
		}
		byPkg[fn.Pkg] = append(byPkg[fn.Pkg], ws)
	}
	var mu sync.Mutex
	var wg sync.WaitGroup
	for _, pkg := range pkgs {
		pkg := pkg
		wg.Add(1)
		go func() {
			defer wg.Done()
			rs, fs := e.witnessPackage(repo, work, pkg, byPkg[pkg], seed, tier, secs)
			mu.Lock()
			reports = append(reports, rs...)
			failures = append(failures, fs...)
			mu.Unlock()
		}()
	}
	wg.Wait()
	sort.Slice(reports, func(i, j int) bool { return reports[i].Func < reports[j].Func })
	return reports, failures
}

func (e *Engine) witnessPackage(repo, work string, pkg *ssa.Package, specs []WitnessSpec, seed int64, tier string, secs int) ([]WitnessReport, []Failure) {
	var reports []WitnessReport
	var failures []Failure
	src, unsupported := e.witnessTestSource(pkg, specs, seed, tier)
	rel := strings.TrimPrefix(strings.TrimPrefix(pkg.Pkg.Path(), modPath), "/")
	if rel == "" {
		rel = "."
	}
	wdir := filepath.Join(work, "witness")
	os.MkdirAll(wdir, 0755)
	tf := filepath.Join(wdir, "zz_govc_witness_"+sanitize(rel)+"_test.go")
	os.WriteFile(tf, []byte(src), 0644)
	ov, _ := json.Marshal(map[string]interface{}{"Replace": map[string]string{filepath.Join(repo, rel, "zz_govc_witness_test.go"): tf}})
	ovf := filepath.Join(wdir, "overlay_witness_"+sanitize(rel)+".json")
	os.WriteFile(ovf, ov, 0644)
	argsGo := []string{"test", "-tags", "verif", "-overlay", ovf, "-vet=off", "-v", "-count=1", "-timeout", "120s", "-run", "^TestZZGovcWitness$", "./" + rel}
	cmd := exec.Command("go", argsGo...)
	cmd.Dir = repo
	cmd.Env = goEnv()
	var o bytes.Buffer
	cmd.Stdout = &o
	cmd.Stderr = &o
	runErr := cmd.Run()
	cmdline := "cd " + repo + " && go " + strings.Join(argsGo, " ")
	samples := map[string][]witnessSample{}
	for _, ln := range strings.Split(o.String(), "\n") {
		if !strings.HasPrefix(ln, "GOVC-WITNESS ") {
			continue
		}
		var s witnessSample
		dec := json.NewDecoder(strings.NewReader(strings.TrimPrefix(ln, "GOVC-WITNESS ")))
		dec.UseNumber()
		if dec.Decode(&s) == nil {
			samples[s.F] = append(samples[s.F], s)
		}
	}
	for _, ws := range specs {
		rep := WitnessReport{Func: ws.Func, Clauses: map[string]int{}, Command: cmdline}
		if why, bad := unsupported[ws.Func]; bad {
			rep.Unsupported = why
			reports = append(reports, rep)
			continue
		}
		ss := samples[ws.Func]
		rep.Samples = len(ss)
		if len(ss) == 0 {
			detail := "the generated test produced no executions"
			if runErr != nil {
				detail += ": " + lastLines(o.String(), 12)
			}
			failures = append(failures, Failure{Obligation: ws.Func + "/witness/ran", Detail: detail, Backend: "witness", NoInput: true, Replay: cmdline})
			reports = append(reports, rep)
			continue
		}
		fs := e.witnessFunction(ws, ss, &rep, cmdline, secs)
		for i := range fs {
			fs[i].Generated = src
		}
		failures = append(failures, fs...)
		reports = append(reports, rep)
	}
	return reports, failures
}

func lastLines(s string, n int) string {
	ls := strings.Split(strings.TrimSpace(s), "\n")
	if len(ls) > n {
		ls = ls[len(ls)-n:]
	}
	return strings.Join(ls, " | ")
}

// witnessEnv binds parameters and results of one execution to concrete terms.
func (e *Engine) witnessEnv(fn *ssa.Function, con *FuncContract, s witnessSample, withResults bool) (*Env, *State, string) {
	st := &State{cells: map[interface{}]Value{}, named: map[string]interface{}{}, heaps: map[string]string{}, maps: map[string]*mapState{}, chans: map[string]*chanState{}, ghost: map[string]Value{}, entryVals: map[string]Value{}}
	env := &Env{vars: map[string]Value{}, st: st}
	var shown []string
	conv := func(t types.Type, v interface{}) (Value, string) {
		switch basicKind(t) {
		case "string":
			sv, _ := v.(string)
			return Sc{e.literal(sv), SStr}, strconv.Quote(sv)
		case "bool":
			bv, _ := v.(bool)
			return Sc{fmt.Sprint(bv), SBool}, fmt.Sprint(bv)
		case "rune", "byte", "int":
			nv, _ := v.(json.Number)
			i, _ := nv.Int64()
			return Sc{smtInt(i), SInt}, fmt.Sprint(i)
		}
		if basicKind(t) == "float" {
			txt := ""
			if m, ok := v.(map[string]interface{}); ok {
				txt, _ = m["float"].(string)
			}
			r, ok := new(big.Rat).SetString(txt)
			if !ok {
				return nil, "?"
			}
			return Sc{ratTerm(constant.Make(r)), SReal}, txt
		}
		if isErrorType(t) {
			if v == nil {
				return IfaceV{Nil: "true", Tag: "0"}, "nil"
			}
			msg := ""
			if m, ok := v.(map[string]interface{}); ok {
				msg, _ = m["err"].(string)
			}
			return IfaceV{Nil: "false", Tag: st.freshConst("errtag", SInt)}, "error(" + strconv.Quote(msg) + ")"
		}
		return nil, "?"
	}
	ps := fn.Signature.Params()
	for i := 0; i < ps.Len() && i < len(s.Args); i++ {
		v, show := conv(ps.At(i).Type(), s.Args[i])
		env.vars[con.Params[i]] = v
		st.entryVals[con.Params[i]] = v
		shown = append(shown, con.Params[i]+"="+show)
	}
	desc := strings.Join(shown, " ")
	if withResults && s.Panic == "" {
		rs := fn.Signature.Results()
		var rshown []string
		for i := 0; i < rs.Len() && i < len(s.Res) && i < len(con.Results); i++ {
			v, show := conv(rs.At(i).Type(), s.Res[i])
			env.vars[con.Results[i]] = v
			rshown = append(rshown, con.Results[i]+"="+show)
		}
		desc += " -> " + strings.Join(rshown, " ")
	}
	old := &Env{vars: env.vars, st: st}
	env.old = old
	return env, st, desc
}

func (e *Engine) witnessFunction(ws WitnessSpec, ss []witnessSample, rep *WitnessReport, cmdline string, secs int) (failures []Failure) {
	full := e.fullKey(ws.Func)
	fn := e.lookupFunc(full)
	con := e.cs.Funcs[full]
	activateOpaque(con.Notes)
	defer func() {
		if r := recover(); r != nil {
			if ce, ok := r.(cevalErr); ok {
				failures = append(failures, Failure{Obligation: ws.Func + "/witness/contract", Detail: "contract cannot be evaluated on concrete values: " + ce.msg, Backend: "witness", NoInput: true})
				return
			}
			panic(r)
		}
	}()
	incon := map[string]bool{}
	for _, l := range ws.Inconclusive {
		incon[l] = true
	}
	// contract evaluation and script building use engine caches and are serialised; only the solvers run in parallel
	script := func(st *State, goal string) string {
		sc := e.buildScript(st.decls, st.facts, goal, true)
		if strings.Contains(sc, "gs.lt") {
			// Go compares strings bytewise; contracts only use the order's axioms, concrete instances need its definition
			sc = e.buildScript(st.decls, append(append([]string{}, st.facts...), witnessLexOrder), goal, true)
		}
		return sc
	}
	solve := func(tag, sc string, t int) string { return raceSolvers(e.workdir, tag, sc, t, false).Status }
	// 1. which executions lie inside the precondition
	type acc struct {
		s    witnessSample
		desc string
	}
	var accepted []acc
	var mu sync.Mutex
	var wg sync.WaitGroup
	sem := make(chan bool, 6)
	for i, s := range ss {
		i, s := i, s
		wg.Add(1)
		sem <- true
		go func() {
			defer wg.Done()
			defer func() { <-sem }()
			var desc, preYes, preNo string
			havePre := false
			func() {
				witnessMu.Lock()
				defer witnessMu.Unlock()
				defer func() { recover() }()
				env, st, d := e.witnessEnv(fn, con, s, true)
				desc = d
				if len(con.Requires) > 0 {
					var gs []string
					for _, r := range con.Requires {
						gs = append(gs, e.cevalBool(r.E, env))
					}
					pre := and(gs...)
					preYes, preNo = script(st, pre), script(st, not(pre))
					havePre = true
				}
			}()
			if desc == "" {
				return
			}
			ok := true
			if havePre {
				// decided either way: the precondition follows, or its negation does
				yes := make(chan bool, 2)
				go func() { yes <- solve(fmt.Sprintf("%s_witness_pre_%d", ws.Func, i), preYes, 5) == "unsat" }()
				no := make(chan bool, 2)
				go func() { no <- solve(fmt.Sprintf("%s_witness_npre_%d", ws.Func, i), preNo, 5) == "unsat" }()
				select {
				case ok = <-yes:
					if !ok {
						<-no
					}
				case rejected := <-no:
					if rejected {
						ok = false
					} else {
						ok = <-yes
					}
				}
			}
			if ok {
				mu.Lock()
				accepted = append(accepted, acc{s, desc})
				mu.Unlock()
			}
		}()
	}
	wg.Wait()
	sort.Slice(accepted, func(i, j int) bool { return accepted[i].desc < accepted[j].desc })
	rep.Accepted = len(accepted)
	// 2. an execution inside the precondition must not panic
	for _, a := range accepted {
		if a.s.Panic != "" {
			failures = append(failures, Failure{Obligation: ws.Func + "/witness/no-panic", Class: "panic", Input: a.desc, Detail: "the real function panics on an input that satisfies the contract's preconditions: " + a.s.Panic, Backend: "witness", Replay: cmdline})
			return failures
		}
	}
	// 3. every clause, instantiated with each execution, follows from the spec functions
	clauses := append(append([]Clause{}, con.Ensures...), con.Bounded...)
	for ci, cl := range clauses {
		label := clauseLabel(cl, ci)
		if incon[label] {
			rep.Skipped = append(rep.Skipped, label)
			continue
		}
		one := func(a acc, tag string, t int) string {
			sc := func() string {
				witnessMu.Lock()
				defer witnessMu.Unlock()
				env, st, _ := e.witnessEnv(fn, con, a.s, true)
				return script(st, e.cevalBool(cl.E, env))
			}()
			return solve(tag, sc, t)
		}
		// all executions at once first
		all := func() string {
			witnessMu.Lock()
			locked := true
			defer func() {
				if locked {
					witnessMu.Unlock()
				}
			}()
			st := &State{cells: map[interface{}]Value{}, named: map[string]interface{}{}, heaps: map[string]string{}, maps: map[string]*mapState{}, chans: map[string]*chanState{}, ghost: map[string]Value{}}
			var gs []string
			for _, a := range accepted {
				env, st1, _ := e.witnessEnv(fn, con, a.s, true)
				gs = append(gs, e.cevalBool(cl.E, env))
				st.decls = append(st.decls, st1.decls...)
				st.facts = append(st.facts, st1.facts...)
			}
			if len(gs) == 0 {
				return "unsat"
			}
			sc := script(st, and(gs...))
			witnessMu.Unlock()
			locked = false
			return solve(fmt.Sprintf("%s_witness_%s_all", ws.Func, label), sc, secs)
		}()
		if all == "unsat" {
			rep.Clauses[label] = len(accepted)
			continue
		}
		// one execution at a time: proved, refuted (the negation follows, or the solver has a model), or
		// neither. Only a refutation is a violation: "not proved" under load or a solver limit is inconclusive.
		proved := 0
		var firstBad *acc
		badStatus := ""
		inconclusive := 0
		neg := func(a acc, tag string, t int) string {
			sc := func() string {
				witnessMu.Lock()
				defer witnessMu.Unlock()
				env, st, _ := e.witnessEnv(fn, con, a.s, true)
				return script(st, not(e.cevalBool(cl.E, env)))
			}()
			return solve(tag, sc, t)
		}
		var wg2 sync.WaitGroup
		for i := range accepted {
			i := i
			wg2.Add(1)
			sem <- true
			go func() {
				defer wg2.Done()
				defer func() { <-sem }()
				stt := one(accepted[i], fmt.Sprintf("%s_witness_%s_%d", ws.Func, label, i), secs)
				refuted := stt == "sat"
				if stt != "unsat" && !refuted {
					if neg(accepted[i], fmt.Sprintf("%s_witness_%s_%d_neg", ws.Func, label, i), secs) == "unsat" {
						refuted = true
						stt = "the negation of the clause follows"
					}
				}
				mu.Lock()
				switch {
				case stt == "unsat":
					proved++
				case refuted:
					if firstBad == nil || accepted[i].desc < firstBad.desc {
						firstBad = &accepted[i]
						badStatus = stt
					}
				default:
					inconclusive++
				}
				mu.Unlock()
			}()
		}
		wg2.Wait()
		if inconclusive > 0 {
			rep.Skipped = append(rep.Skipped, fmt.Sprintf("%s: %d of %d executions neither proved nor refuted in this run", label, inconclusive, len(accepted)))
		}
		rep.Clauses[label] = proved
		if firstBad != nil {
			what := "the clause is false for this execution of the real function (" + badStatus + ")"
			failures = append(failures, Failure{Obligation: ws.Func + "/witness/" + label, Class: "execution-contradicts-clause", Input: firstBad.desc, Detail: "on " + firstBad.desc + ": " + cl.Src + " — " + what, Backend: "witness", Replay: cmdline})
		}
	}
	return failures
}

const witnessLexOrder = `(forall ((a Str) (b Str)) (! (= (gs.lt a b) (exists ((k Int)) (and (<= 0 k) (<= k (gs.len a)) (<= k (gs.len b)) (forall ((j Int)) (=> (and (<= 0 j) (< j k)) (= (gs.at a j) (gs.at b j)))) (or (and (= k (gs.len a)) (< k (gs.len b))) (and (< k (gs.len a)) (< k (gs.len b)) (< (gs.at a k) (gs.at b k))))))) :pattern ((gs.lt a b))))`
