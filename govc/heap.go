package main

// Slice storage: one SMT heap `(Array Int (Array Int E))` per scalar element
// sort, and for slices of structs one heap per (flattened) scalar field, so
// that aliasing between slices sharing a backing array is real.

import (
	"fmt"
	"go/types"
	"sync"
)

type leaf struct {
	path []int
	key  string
	sort string
	sub  string     // "", or ref/off/len/cap for a slice-typed field
	elem types.Type // element type for slice-typed fields
}

var heapKeySorts = map[string]string{SInt: SInt, SBool: SBool, SReal: SReal, SStr: SStr, "H_func": SInt}
var heapKeyMu sync.Mutex

func registerHeapKey(key, sortName string) {
	heapKeyMu.Lock()
	heapKeySorts[key] = sortName
	heapKeyMu.Unlock()
}

func sortOfHeapKey(key string) string {
	heapKeyMu.Lock()
	defer heapKeyMu.Unlock()
	if s, ok := heapKeySorts[key]; ok {
		return s
	}
	return key
}

func typeKey(t types.Type) string {
	if n, ok := t.(*types.Named); ok {
		return sanitizeIdent(n.Obj().Name())
	}
	return sanitizeIdent(t.String())
}

// leavesOf flattens an element type into scalar leaves. complete is false
// when some component (map, pointer, interface, func) has no SMT image.
func leavesOf(t types.Type) (ls []leaf, complete bool) {
	complete = true
	if ss, ok := scalarSort(t); ok {
		return []leaf{{key: ss, sort: ss}}, true
	}
	if _, ok := t.Underlying().(*types.Signature); ok {
		registerHeapKey("H_func", SInt)
		return []leaf{{key: "H_func", sort: SInt}}, true
	}
	var rec func(t types.Type, path []int, prefix string)
	rec = func(t types.Type, path []int, prefix string) {
		if ss, ok := scalarSort(t); ok {
			registerHeapKey(prefix, ss)
			ls = append(ls, leaf{path: append([]int(nil), path...), key: prefix, sort: ss})
			return
		}
		switch u := t.Underlying().(type) {
		case *types.Signature:
			// function values stored in slices are identified by an integer id
			registerHeapKey(prefix+"_fn", SInt)
			ls = append(ls, leaf{path: append([]int(nil), path...), key: prefix + "_fn", sort: SInt})
		case *types.Struct:
			for i := 0; i < u.NumFields(); i++ {
				rec(u.Field(i).Type(), append(path, i), prefix+"_"+sanitizeIdent(u.Field(i).Name()))
			}
		case *types.Slice:
			for _, sub := range []string{"ref", "off", "len", "cap"} {
				registerHeapKey(prefix+"_"+sub, SInt)
				ls = append(ls, leaf{path: append([]int(nil), path...), key: prefix + "_" + sub, sort: SInt, sub: sub, elem: u.Elem()})
			}
		default:
			complete = false
		}
	}
	rec(t, nil, "H_"+typeKey(t))
	return ls, complete
}

func getPath(v Value, path []int) Value {
	for _, f := range path {
		sv, ok := v.(StructV)
		if !ok {
			return nil
		}
		v = sv.F[f]
	}
	return v
}

// heapLoad reads element idx of row ref as a value of type t.
func (fc *funcCtx) heapLoad(st *State, t types.Type, ref, idx string) Value {
	return fc.heapLoadX(st, t, ref, idx, true)
}

// heapLoadX: assumeInv adds the type invariants of loaded slice headers as facts of the
// path (never when the index mentions a quantifier-bound variable of a contract).
func (fc *funcCtx) heapLoadX(st *State, t types.Type, ref, idx string, assumeInv bool) Value {
	if ss, ok := scalarSort(t); ok {
		return Sc{app("select", app("select", fc.heap(st, ss), ref), idx), ss}
	}
	if _, ok := t.Underlying().(*types.Signature); ok {
		return Sc{app("select", app("select", fc.heap(st, "H_func"), ref), idx), SInt}
	}
	ls, _ := leavesOf(t)
	v := fc.e.zeroShape(st, t)
	for i := 0; i < len(ls); i++ {
		l := ls[i]
		sel := app("select", app("select", fc.heap(st, l.key), ref), idx)
		if l.sub == "" {
			v = setPath(v, l.path, Sc{sel, l.sort})
			continue
		}
		// four consecutive leaves form a slice header
		get := func(k int) string { return app("select", app("select", fc.heap(st, ls[i+k].key), ref), idx) }
		// a slice header found in storage was created earlier: it points below the allocation counter,
		// and a header found in storage that predates this call points to storage that predates it
		if assumeInv {
			st.assume(app("<", get(0), plus(st.allocBase, smtInt(int64(st.allocOff)))))
			st.assume(implies(app("<", ref, st.entryBase), app("<", get(0), st.entryBase)))
			st.assume(and(app("<=", "0", get(1)), app("<=", "0", get(2)), app("<=", get(2), get(3)), app("<=", "0", get(0))))
		}
		v = setPath(v, l.path, SliceV{Ref: get(0), Off: get(1), Len: get(2), Cap: get(3), Elem: l.elem})
		i += 3
	}
	return v
}

// zeroShape: a value of the right shape whose unsupported components are opaque.
func (e *Engine) zeroShape(st *State, t types.Type) Value {
	if ss, ok := scalarSort(t); ok {
		return Sc{zeroOfSort(ss), ss}
	}
	switch u := t.Underlying().(type) {
	case *types.Struct:
		sv := StructV{T: t}
		for i := 0; i < u.NumFields(); i++ {
			sv.F = append(sv.F, e.zeroShape(st, u.Field(i).Type()))
		}
		return sv
	case *types.Slice:
		return SliceV{Ref: "0", Off: "0", Len: "0", Cap: "0", Elem: u.Elem()}
	}
	// components without an SMT image (maps, pointers, interfaces, functions) read back as
	// arbitrary values of their type
	switch t.Underlying().(type) {
	case *types.Map, *types.Pointer, *types.Interface:
		return e.fresh(st, t, "elem")
	}
	return OpaqueV{"component of type " + t.String() + " stored in a slice"}
}

func (fc *funcCtx) heapStore(st *State, t types.Type, ref, idx string, v Value) {
	put := func(key, term string) {
		h := fc.heap(st, key)
		st.heaps[key] = app("store", h, ref, app("store", app("select", h, ref), idx, term))
	}
	if ss, ok := scalarSort(t); ok {
		sc, ok := v.(Sc)
		if !ok {
			fc.abort("store of %T into slice of %s", v, ss)
		}
		put(ss, sc.T)
		return
	}
	ls, _ := leavesOf(t)
	for i := 0; i < len(ls); i++ {
		l := ls[i]
		x := getPath(v, l.path)
		if l.sub == "" {
			sc, ok := x.(Sc)
			if !ok {
				fc.abort("store: field is %T, expected scalar", x)
			}
			put(l.key, sc.T)
			continue
		}
		sl, ok := x.(SliceV)
		if !ok {
			fc.abort("store: field is %T, expected slice", x)
		}
		put(ls[i].key, sl.Ref)
		put(ls[i+1].key, sl.Off)
		put(ls[i+2].key, sl.Len)
		put(ls[i+3].key, sl.Cap)
		i += 3
	}
}

func heapKeysOf(t types.Type) []string {
	ls, _ := leavesOf(t)
	var ks []string
	for _, l := range ls {
		ks = append(ks, l.key)
	}
	return ks
}

// frameQuant: every row except `ref` is unchanged between heaps h and nh.
func frameOtherRows(nh, h, ref string) string {
	return fmt.Sprintf("(forall ((r Int)) (! (=> (not (= r %s)) (= (select %s r) (select %s r))) :pattern ((select %s r))))", ref, nh, h, nh)
}

// leafKeysForPath: the heap keys written when the field at `path` of an element of type t is assigned.
func leafKeysForPath(t types.Type, path []int) []string {
	ls, _ := leavesOf(t)
	var ks []string
	for _, l := range ls {
		if len(l.path) < len(path) {
			continue
		}
		ok := true
		for i := range path {
			if l.path[i] != path[i] {
				ok = false
				break
			}
		}
		if ok {
			ks = append(ks, l.key)
		}
	}
	return ks
}

// heapStorePath writes only the leaves below `path` of element idx of row ref.
func (fc *funcCtx) heapStorePath(st *State, t types.Type, ref, idx string, path []int, v Value) {
	put := func(key, term string) {
		h := fc.heap(st, key)
		st.heaps[key] = app("store", h, ref, app("store", app("select", h, ref), idx, term))
	}
	ls, _ := leavesOf(t)
	for i := 0; i < len(ls); i++ {
		l := ls[i]
		if len(l.path) < len(path) {
			continue
		}
		match := true
		for j := range path {
			if l.path[j] != path[j] {
				match = false
				break
			}
		}
		if !match {
			continue
		}
		x := getPath(v, l.path[len(path):])
		if l.sub == "" {
			sc, ok := x.(Sc)
			if !ok {
				fc.abort("store: field is %T, expected scalar", x)
			}
			put(l.key, sc.T)
			continue
		}
		sl, ok := x.(SliceV)
		if !ok {
			fc.abort("store: field is %T, expected slice", x)
		}
		put(ls[i].key, sl.Ref)
		put(ls[i+1].key, sl.Off)
		put(ls[i+2].key, sl.Len)
		put(ls[i+3].key, sl.Cap)
		i += 3
	}
}
