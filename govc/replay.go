package main

// From a failed obligation to a concrete input, and back to the real code.
//
//  1. If a solver answered `sat`, the values of the function's parameters /
//     the lemma's variables are read from the model (get-value on the input
//     terms; strings through their length and first characters).
//  2. If no solver produced a model (the usual outcome once quantified facts are
//     present), the query is retried with every quantified assertion dropped —
//     a weaker set of assumptions, so a model of it is only a *candidate*.
//  3. For obligations whose failure is a panic (bounds, nil, div, conv, assert,
//     no-panic) the candidate is replayed: an in-package test generated into the
//     work directory and injected with -overlay calls the real function with the
//     decoded arguments and reports whether it panics. Only a reproduced panic is
//     reported as a failing input.

import (
	"bytes"
	"encoding/json"
	"fmt"
	"go/types"
	"os"
	"os/exec"
	"path/filepath"
	"regexp"
	"sort"
	"strconv"
	"strings"
)

type DecodedInput struct {
	Name  string
	GoLit string // Go literal for replay ("" if not expressible)
	Show  string
}

var quantRe = regexp.MustCompile(`\((forall|exists) `)

// dropQuantified removes top-level assertions that contain quantifiers.
func dropQuantified(script string) string {
	var out []string
	for _, ln := range strings.Split(script, "\n") {
		if strings.HasPrefix(ln, "(assert") && quantRe.MatchString(ln) {
			continue
		}
		if strings.HasPrefix(ln, "(define-fun") && quantRe.MatchString(ln) {
			// keep the symbol but uninterpreted
			f := strings.Fields(ln)
			name := f[1]
			// (define-fun name ((a S) ...) R body) -> declare-fun
			i := strings.Index(ln, "((")
			if i < 0 {
				continue
			}
			depth, j := 0, i
			for ; j < len(ln); j++ {
				if ln[j] == '(' {
					depth++
				} else if ln[j] == ')' {
					depth--
					if depth == 0 {
						break
					}
				}
			}
			params := ln[i+1 : j]
			var sorts []string
			for _, m := range regexp.MustCompile(`\(\S+ ([^()]+|\([^()]*\))\)`).FindAllStringSubmatch(params, -1) {
				sorts = append(sorts, m[1])
			}
			rest := strings.TrimSpace(ln[j+1:])
			res := strings.Fields(rest)[0]
			out = append(out, fmt.Sprintf("(declare-fun %s (%s) %s)", name, strings.Join(sorts, " "), res))
			continue
		}
		out = append(out, ln)
	}
	return strings.Join(out, "\n")
}

// modelInputs asks z3 for the values of the input terms in a model of script.
func modelInputs(workdir, script string, inputs map[string]Value, secs int) ([]DecodedInput, bool) {
	var names []string
	for n := range inputs {
		names = append(names, n)
	}
	sort.Strings(names)
	type q struct{ name, term, kind string }
	var qs []q
	for _, n := range names {
		switch v := inputs[n].(type) {
		case Sc:
			switch v.S {
			case SInt, SBool, SReal:
				qs = append(qs, q{n, v.T, v.S})
			case SStr:
				qs = append(qs, q{n + "#len", app("gs.len", v.T), SInt})
				for i := 0; i < 24; i++ {
					qs = append(qs, q{fmt.Sprintf("%s#%d", n, i), app("gs.at", v.T, strconv.Itoa(i)), SInt})
				}
			}
		}
	}
	if len(qs) == 0 {
		return nil, false
	}
	var terms []string
	for _, x := range qs {
		terms = append(terms, x.term)
	}
	body := "(set-option :produce-models true)\n" + script + "(check-sat)\n(get-value (" + strings.Join(terms, " ") + "))\n"
	f := filepath.Join(workdir, fmt.Sprintf("model_%d.smt2", os.Getpid()+len(script)%100000))
	if err := os.WriteFile(f, []byte(body), 0644); err != nil {
		return nil, false
	}
	cmd := exec.Command("z3-new", fmt.Sprintf("-T:%d", secs), f)
	var out bytes.Buffer
	cmd.Stdout = &out
	_ = cmd.Run()
	txt := out.String()
	if !strings.HasPrefix(strings.TrimSpace(txt), "sat") {
		return nil, false
	}
	vals := map[string]string{}
	// values come back in order as ((term value) ...): parse by balanced scan
	rest := txt[strings.Index(txt, "sat")+3:]
	items := splitPairs(rest)
	for i, it := range items {
		if i < len(qs) {
			vals[qs[i].name] = it
		}
	}
	var res []DecodedInput
	for _, n := range names {
		switch v := inputs[n].(type) {
		case Sc:
			switch v.S {
			case SInt:
				iv := smtIntVal(vals[n])
				res = append(res, DecodedInput{n, iv, n + "=" + iv + runeHint(iv)})
			case SBool:
				res = append(res, DecodedInput{n, vals[n], n + "=" + vals[n]})
			case SReal:
				rv := smtRealVal(vals[n])
				res = append(res, DecodedInput{n, rv, n + "=" + rv})
			case SStr:
				ln, _ := strconv.Atoi(smtIntVal(vals[n+"#len"]))
				if ln < 0 || ln > 24 {
					res = append(res, DecodedInput{n, "", fmt.Sprintf("%s=<string of length %d>", n, ln)})
					continue
				}
				var bs []byte
				for i := 0; i < ln; i++ {
					c, _ := strconv.Atoi(smtIntVal(vals[fmt.Sprintf("%s#%d", n, i)]))
					bs = append(bs, byte(c))
				}
				res = append(res, DecodedInput{n, strconv.Quote(string(bs)), n + "=" + strconv.Quote(string(bs))})
			}
		}
	}
	return res, true
}

func runeHint(iv string) string {
	n, err := strconv.Atoi(iv)
	if err == nil && n >= 32 && n < 127 {
		return fmt.Sprintf("(%q)", rune(n))
	}
	return ""
}

func splitPairs(s string) []string {
	// s looks like ((t1 v1)\n (t2 v2) ...); return the values
	var vals []string
	depth := 0
	start := -1
	for i := 0; i < len(s); i++ {
		switch s[i] {
		case '(':
			depth++
			if depth == 2 {
				start = i
			}
		case ')':
			if depth == 2 && start >= 0 {
				pair := s[start+1 : i]
				vals = append(vals, lastSexp(pair))
				start = -1
			}
			depth--
		}
	}
	return vals
}

// lastSexp returns the last s-expression of "term value".
func lastSexp(p string) string {
	p = strings.TrimSpace(p)
	if strings.HasSuffix(p, ")") {
		depth := 0
		for i := len(p) - 1; i >= 0; i-- {
			if p[i] == ')' {
				depth++
			} else if p[i] == '(' {
				depth--
				if depth == 0 {
					return p[i:]
				}
			}
		}
	}
	f := strings.Fields(p)
	if len(f) == 0 {
		return ""
	}
	return f[len(f)-1]
}

func smtIntVal(v string) string {
	v = strings.TrimSpace(v)
	if strings.HasPrefix(v, "(-") {
		return "-" + strings.TrimSpace(strings.Trim(v[2:], "() "))
	}
	return v
}

func smtRealVal(v string) string {
	v = strings.TrimSpace(v)
	neg := false
	if strings.HasPrefix(v, "(- ") {
		neg = true
		v = strings.TrimSuffix(strings.TrimPrefix(v, "(- "), ")")
	}
	if strings.HasPrefix(v, "(/ ") {
		f := strings.Fields(strings.Trim(v, "()"))
		if len(f) == 3 {
			a, _ := strconv.ParseFloat(f[1], 64)
			b, _ := strconv.ParseFloat(f[2], 64)
			if b != 0 {
				v = strconv.FormatFloat(a/b, 'g', -1, 64)
			}
		}
	}
	if neg {
		return "-" + v
	}
	return v
}

var panicKinds = map[string]bool{"bounds": true, "nil": true, "div": true, "conv": true, "assert": true, "no-panic": true}

// replayPanic calls the real function with the decoded arguments (in-package test
// injected with -overlay) and reports whether it panics.
func (e *Engine) replayPanic(repo, work string, fnKey string, ins []DecodedInput) (confirmed bool, out string, cmdline string) {
	fn := e.lookupFunc(fnKey)
	if fn == nil || fn.Signature.Recv() != nil {
		return false, "", ""
	}
	byName := map[string]DecodedInput{}
	for _, d := range ins {
		byName[d.Name] = d
	}
	con := e.cs.Funcs[fnKey]
	var args []string
	for i := 0; i < fn.Signature.Params().Len(); i++ {
		p := fn.Signature.Params().At(i)
		name := p.Name()
		if con != nil && i < len(con.Params) {
			name = con.Params[i]
		}
		d, ok := byName[name]
		if !ok || d.GoLit == "" {
			return false, "", ""
		}
		b, isBasic := p.Type().Underlying().(*types.Basic)
		if !isBasic {
			return false, "", ""
		}
		args = append(args, fmt.Sprintf("%s(%s)", types.TypeString(p.Type(), func(*types.Package) string { return "" }), d.GoLit))
		_ = b
	}
	pkgPath := fn.Pkg.Pkg.Path()
	rel := strings.TrimPrefix(strings.TrimPrefix(pkgPath, modPath), "/")
	if rel == "" {
		rel = "."
	}
	src := fmt.Sprintf(`package %s

import (
	"fmt"
	"testing"
)

func TestZZGovcReplay(t *testing.T) {
	defer func() {
		if r := recover(); r != nil {
			fmt.Printf("GOVC-REPLAY panic: %%v\n", r)
		}
	}()
	%s(%s)
	fmt.Println("GOVC-REPLAY returned")
}
`, fn.Pkg.Pkg.Name(), fn.Name(), strings.Join(args, ", "))
	os.MkdirAll(work, 0755)
	tf := filepath.Join(work, "zz_govc_replay_"+sanitize(fn.Name())+"_test.go")
	if err := os.WriteFile(tf, []byte(src), 0644); err != nil {
		return false, "", ""
	}
	ov, _ := json.Marshal(map[string]interface{}{"Replace": map[string]string{filepath.Join(repo, rel, "zz_govc_replay_test.go"): tf}})
	ovf := filepath.Join(work, "overlay_replay_"+sanitize(fn.Name())+".json")
	os.WriteFile(ovf, ov, 0644)
	argsGo := []string{"test", "-tags", "verif", "-overlay", ovf, "-vet=off", "-v", "-count=1", "-timeout", "60s", "-run", "^TestZZGovcReplay$", "./" + rel}
	cmd := exec.Command("go", argsGo...)
	cmd.Dir = repo
	cmd.Env = goEnv()
	var o bytes.Buffer
	cmd.Stdout = &o
	cmd.Stderr = &o
	_ = cmd.Run()
	txt := o.String()
	for _, ln := range strings.Split(txt, "\n") {
		if strings.HasPrefix(ln, "GOVC-REPLAY panic") {
			return true, ln, "cd " + repo + " && go " + strings.Join(argsGo, " ")
		}
	}
	return false, txt, ""
}

// replayLemma evaluates the lemma's `replay` expression on the real code with the
// counterexample's values. Confirmed when the expression is false there.
func (e *Engine) replayLemma(repo, work string, lm *Lemma, ins []DecodedInput) (bool, string, string) {
	if lm.ReplayExpr == "" {
		return false, "", ""
	}
	byName := map[string]DecodedInput{}
	for _, d := range ins {
		byName[d.Name] = d
	}
	var decls []string
	goType := map[string]string{"int": "int", "rune": "rune", "byte": "byte", "bool": "bool", "string": "string", "real": "float64", "float64": "float64"}
	for _, p := range lm.Params {
		d, ok := byName[p.Name]
		gt, ok2 := goType[p.Type]
		if !ok || !ok2 || d.GoLit == "" {
			return false, "", ""
		}
		decls = append(decls, fmt.Sprintf("\tvar %s %s = %s(%s)\n\t_ = %s\n", p.Name, gt, gt, d.GoLit, p.Name))
	}
	pkgName, err := packageName(filepath.Join(repo, lm.ReplayPkg))
	if err != nil {
		return false, "", ""
	}
	src := fmt.Sprintf("package %s\n\nimport (\n\t\"fmt\"\n\t\"testing\"\n)\n\nfunc TestZZGovcReplay(t *testing.T) {\n%s\tif %s {\n\t\tfmt.Println(\"GOVC-REPLAY holds\")\n\t} else {\n\t\tfmt.Println(\"GOVC-REPLAY violated\")\n\t}\n}\n", pkgName, strings.Join(decls, ""), lm.ReplayExpr)
	os.MkdirAll(work, 0755)
	tf := filepath.Join(work, "zz_govc_replay_lemma_"+sanitize(lm.Name)+"_test.go")
	if err := os.WriteFile(tf, []byte(src), 0644); err != nil {
		return false, "", ""
	}
	ov, _ := json.Marshal(map[string]interface{}{"Replace": map[string]string{filepath.Join(repo, lm.ReplayPkg, "zz_govc_replay_test.go"): tf}})
	ovf := filepath.Join(work, "overlay_replay_lemma_"+sanitize(lm.Name)+".json")
	os.WriteFile(ovf, ov, 0644)
	argsGo := []string{"test", "-tags", "verif", "-overlay", ovf, "-vet=off", "-v", "-count=1", "-timeout", "60s", "-run", "^TestZZGovcReplay$", "./" + lm.ReplayPkg}
	cmd := exec.Command("go", argsGo...)
	cmd.Dir = repo
	cmd.Env = goEnv()
	var o bytes.Buffer
	cmd.Stdout = &o
	cmd.Stderr = &o
	_ = cmd.Run()
	if strings.Contains(o.String(), "GOVC-REPLAY violated") {
		return true, "the replay expression `" + lm.ReplayExpr + "` is false on the real code", "cd " + repo + " && go " + strings.Join(argsGo, " ")
	}
	return false, o.String(), ""
}
