package main

import (
	"go/ast"
	"go/constant"
	"go/token"
	"go/types"
	"sort"
	"strings"

	"golang.org/x/tools/go/ssa"
)

type Loop struct {
	Head    *ssa.BasicBlock
	Blocks  map[*ssa.BasicBlock]bool
	Ordinal int    // 1-based, source pre-order
	Header  string // source text of the loop header (fingerprint)
	// havoc sets
	Cells     map[interface{}]bool // alloc cells / iterator cells possibly written in the loop
	HeapSorts map[string]bool      // element sorts of slice heaps possibly written
	AllHeaps  bool
	Writers   map[string][]*ssa.Alloc // per heap key: slice variables whose rows the loop may write
	Unknown   map[string]bool         // per heap key: some write goes through a slice the analysis cannot name
	Maps      bool                    // some map may be updated
	Chans     bool
	KCell     interface{} // cell holding the range position
	KOff      int         // $k = cell + KOff at the loop head
	KOffBody  int         // $kN = cell + KOffBody seen from inside the body
	MapIter   bool        // the loop ranges over a map
	HasCall   bool
}

// findLoops computes natural loops of fn and orders them like the source.
func findLoops(fn *ssa.Function, fset *token.FileSet, src []byte) []*Loop {
	byHead := map[*ssa.BasicBlock]*Loop{}
	for _, b := range fn.Blocks {
		for _, succ := range b.Succs {
			if succ.Dominates(b) { // back edge b -> succ
				l := byHead[succ]
				if l == nil {
					l = &Loop{Head: succ, Blocks: map[*ssa.BasicBlock]bool{succ: true}, Cells: map[interface{}]bool{}, HeapSorts: map[string]bool{}, Writers: map[string][]*ssa.Alloc{}, Unknown: map[string]bool{}}
					byHead[succ] = l
				}
				// blocks that reach b without passing through head
				stack := []*ssa.BasicBlock{b}
				for len(stack) > 0 {
					x := stack[len(stack)-1]
					stack = stack[:len(stack)-1]
					if l.Blocks[x] {
						continue
					}
					l.Blocks[x] = true
					for _, p := range x.Preds {
						stack = append(stack, p)
					}
				}
			}
		}
	}
	var loops []*Loop
	for _, l := range byHead {
		loops = append(loops, l)
	}
	// go/ssa creates the blocks of a loop statement before building its body,
	// so for.loop/for.body/range*.loop block indices follow source pre-order.
	key := func(l *Loop) int { return l.Head.Index }
	sort.Slice(loops, func(i, j int) bool { return key(loops[i]) < key(loops[j]) })
	// source headers
	var hdrs []string
	if syn := fn.Syntax(); syn != nil {
		var body ast.Node
		switch n := syn.(type) {
		case *ast.FuncDecl:
			body = n.Body
		case *ast.FuncLit:
			body = n.Body
		}
		if body != nil {
			ast.Inspect(body, func(n ast.Node) bool {
				switch x := n.(type) {
				case *ast.FuncLit:
					return false // loops of nested closures belong to them
				case *ast.ForStmt:
					hdrs = append(hdrs, headerText(fset, src, x.Pos(), x.Body.Pos()))
				case *ast.RangeStmt:
					hdrs = append(hdrs, headerText(fset, src, x.Pos(), x.Body.Pos()))
				}
				return true
			})
		}
	}
	for i, l := range loops {
		l.Ordinal = i + 1
		if i < len(hdrs) {
			l.Header = hdrs[i]
		}
		analyseLoopEffects(l)
		if l.KCell == nil {
			countedLoop(l)
		}
	}
	if len(hdrs) != len(loops) {
		for _, l := range loops {
			l.Header = l.Header + " <loop-count-mismatch>"
		}
	}
	return loops
}

func headerText(fset *token.FileSet, src []byte, from, to token.Pos) string {
	a, b := fset.Position(from).Offset, fset.Position(to).Offset
	if a < 0 || b > len(src) || a > b {
		return ""
	}
	return strings.Join(strings.Fields(string(src[a:b])), " ")
}

func analyseLoopEffects(l *Loop) {
	for b := range l.Blocks {
		for _, ins := range b.Instrs {
			switch x := ins.(type) {
			case *ssa.Store:
				markWrite(l, x.Addr)
			case *ssa.MapUpdate:
				l.Maps = true
			case *ssa.Send:
				l.Chans = true
			case *ssa.Next:
				if r, ok := x.Iter.(*ssa.Range); ok {
					l.Cells[ssa.Instruction(r)] = true
					if b == l.Head {
						l.KCell = ssa.Instruction(r)
						l.KOff = 0
						l.KOffBody = -1
						if _, isMap := r.X.Type().Underlying().(*types.Map); isMap {
							l.MapIter = true
						}
					}
				}
			case *ssa.Alloc:
				// re-executed allocs are re-initialised, nothing to havoc
			case ssa.CallInstruction:
				l.HasCall = true
				com := x.Common()
				if bi, ok := com.Value.(*ssa.Builtin); ok && bi.Name() == "append" {
					if sl, ok := com.Args[0].Type().Underlying().(*types.Slice); ok {
						for _, k := range heapKeysOf(sl.Elem()) {
							l.HeapSorts[k] = true
							noteWriter(l, k, com.Args[0])
						}
					}
					l.HasCall = false
				}
				if bi, ok := com.Value.(*ssa.Builtin); ok && (bi.Name() == "len" || bi.Name() == "cap") {
					l.HasCall = false
				}
				for _, a := range com.Args {
					if al, ok := a.(*ssa.Alloc); ok {
						l.Cells[al] = true
					}
					if fa, ok := a.(*ssa.FieldAddr); ok {
						markWrite(l, fa)
					}
				}
				if cl, ok := com.Value.(*ssa.MakeClosure); ok {
					for _, bnd := range cl.Bindings {
						if al, ok := bnd.(*ssa.Alloc); ok {
							l.Cells[al] = true
						}
					}
				}
			case *ssa.MakeClosure:
				for _, bnd := range x.Bindings {
					if al, ok := bnd.(*ssa.Alloc); ok {
						l.Cells[al] = true
					}
				}
			}
			// range-over-slice position
			if st, ok := ins.(*ssa.Store); ok && b == l.Head {
				if al, ok := st.Addr.(*ssa.Alloc); ok && al.Comment == "rangeindex" {
					l.KCell = al
					l.KOff = 1
					l.KOffBody = 0
				}
			}
		}
	}
}

func markWrite(l *Loop, addr ssa.Value) {
	switch a := addr.(type) {
	case *ssa.Alloc:
		l.Cells[a] = true
	case *ssa.FieldAddr:
		// field of a slice element: only the heaps of that field are written
		var path []int
		var cur ssa.Value = a
		for {
			fa, ok := cur.(*ssa.FieldAddr)
			if !ok {
				break
			}
			path = append([]int{fa.Field}, path...)
			cur = fa.X
		}
		// p := &xs[i] ... p.f = v: follow a pointer-typed local that is assigned once
		if r := resolvePtrLocal(cur); r != nil {
			cur = r
			for {
				fa, ok := cur.(*ssa.FieldAddr)
				if !ok {
					break
				}
				path = append([]int{fa.Field}, path...)
				cur = fa.X
			}
		}
		if ia, ok := cur.(*ssa.IndexAddr); ok {
			if _, isAlloc := ia.X.(*ssa.Alloc); !isAlloc {
				et := deref(ia.Type())
				if _, isStruct := et.Underlying().(*types.Struct); isStruct && lookupOpaque(et) == nil {
					ks := leafKeysForPath(et, path)
					if len(ks) > 0 {
						for _, k := range ks {
							l.HeapSorts[k] = true
							noteWriter(l, k, ia.X)
						}
						return
					}
				}
			}
		}
		markWrite(l, a.X)
	case *ssa.IndexAddr:
		// element of slice: heap of that element type; element of *array local: the alloc
		ks := heapKeysOf(deref(a.Type()))
		if al, ok := a.X.(*ssa.Alloc); ok {
			// element of an array-typed local: the array lives in a heap row of its own
			for _, k := range ks {
				l.HeapSorts[k] = true
				l.Writers[k] = append(l.Writers[k], al)
			}
			return
		}
		if len(ks) == 0 {
			l.AllHeaps = true
		}
		for _, k := range ks {
			l.HeapSorts[k] = true
			noteWriter(l, k, a.X)
		}
	case *ssa.UnOp: // *p where p loaded from somewhere: unknown target, unless p is a local assigned once
		if r := resolvePtrLocal(a); r != nil {
			markWrite(l, r)
			return
		}
		l.AllHeaps = true
	case *ssa.FreeVar:
		l.Cells[a] = true
	default:
		l.AllHeaps = true
	}
}

// noteWriter records which slice variable a heap write goes through.
func noteWriter(l *Loop, key string, base ssa.Value) {
	if ld, ok := base.(*ssa.UnOp); ok {
		if al, ok := ld.X.(*ssa.Alloc); ok {
			l.Writers[key] = append(l.Writers[key], al)
			return
		}
	}
	if sl, ok := base.(*ssa.Slice); ok { // slice of a fresh array (composite literal / varargs)
		if al, ok := sl.X.(*ssa.Alloc); ok {
			l.Writers[key] = append(l.Writers[key], al)
			return
		}
	}
	l.Unknown[key] = true
}

// selfContained: inside the loop the variable is only ever assigned the result of
// appending to itself, a fresh make / literal, or nil — so the rows it can point to
// are its row at loop entry or rows allocated during the loop.
func selfContained(l *Loop, al *ssa.Alloc) bool {
	if _, isArr := deref(al.Type()).Underlying().(*types.Array); isArr {
		return true
	}
	for _, r := range *al.Referrers() {
		st, ok := r.(*ssa.Store)
		if !ok || st.Addr != al || !l.Blocks[st.Block()] {
			continue
		}
		switch v := st.Val.(type) {
		case *ssa.Call:
			if b, ok := v.Call.Value.(*ssa.Builtin); ok && b.Name() == "append" {
				if ld, ok := v.Call.Args[0].(*ssa.UnOp); ok && ld.X == al {
					continue
				}
			}
			return false
		case *ssa.MakeSlice:
		case *ssa.Slice:
			if _, ok := v.X.(*ssa.Alloc); !ok {
				return false
			}
		case *ssa.Const:
			if !v.IsNil() {
				return false
			}
		default:
			return false
		}
	}
	return true
}

// countedLoop: `for i := c; i < n; i++` — the loop test reads a local that the loop writes
// exactly once, by adding 1, and that holds the constant c on entry. Then $k (completed
// iterations) is i - c at the loop head, as for a range loop.
func countedLoop(l *Loop) {
	var test *ssa.If
	for _, ins := range l.Head.Instrs {
		if x, ok := ins.(*ssa.If); ok {
			test = x
		}
	}
	if test == nil {
		return
	}
	cmp, ok := test.Cond.(*ssa.BinOp)
	if !ok {
		return
	}
	// candidates: named integer locals read (possibly under +/- a constant) on either side of the test
	var cands []*ssa.Alloc
	var walk func(v ssa.Value, depth int)
	walk = func(v ssa.Value, depth int) {
		if depth > 3 {
			return
		}
		switch x := v.(type) {
		case *ssa.UnOp:
			if x.Op == token.MUL {
				if al, ok := x.X.(*ssa.Alloc); ok && al.Comment != "" {
					if ss, isInt := scalarSort(deref(al.Type())); isInt && ss == SInt {
						cands = append(cands, al)
					}
				}
			}
		case *ssa.BinOp:
			if x.Op == token.ADD || x.Op == token.SUB {
				walk(x.X, depth+1)
				walk(x.Y, depth+1)
			}
		}
	}
	walk(cmp.X, 0)
	walk(cmp.Y, 0)
	for _, iv := range cands {
		if countedBy(l, iv) {
			return
		}
	}
}

// countedBy: iv is written exactly once in the loop, by iv = iv + 1, and holds a constant on entry.
func countedBy(l *Loop, iv *ssa.Alloc) bool {
	// exactly one store inside the loop: i = i + 1
	n := 0
	for b := range l.Blocks {
		for _, ins := range b.Instrs {
			st, ok := ins.(*ssa.Store)
			if !ok || st.Addr != ssa.Value(iv) {
				continue
			}
			n++
			add, ok := st.Val.(*ssa.BinOp)
			if !ok || add.Op != token.ADD {
				return false
			}
			ld, ok1 := add.X.(*ssa.UnOp)
			one, ok2 := add.Y.(*ssa.Const)
			if !ok1 || !ok2 || ld.X != ssa.Value(iv) || one.Value == nil || one.Value.String() != "1" {
				return false
			}
		}
	}
	if n != 1 {
		return false
	}
	// value on entry: the last store in the predecessor outside the loop must be a constant
	for _, p := range l.Head.Preds {
		if l.Blocks[p] {
			continue
		}
		var last *ssa.Store
		for b := p; b != nil; {
			for _, ins := range b.Instrs {
				if st, ok := ins.(*ssa.Store); ok && st.Addr == ssa.Value(iv) {
					last = st
				}
			}
			if last != nil || len(b.Preds) != 1 {
				break
			}
			b = b.Preds[0]
		}
		if last == nil {
			return false
		}
		c, ok := last.Val.(*ssa.Const)
		if !ok || c.Value == nil {
			return false
		}
		v, exact := constant.Int64Val(constant.ToInt(c.Value))
		if !exact {
			return false
		}
		l.KCell = iv
		l.KOff = int(-v)
		l.KOffBody = int(-v)
		return true
	}
	return false
}

// resolvePtrLocal: v is the load of a pointer-typed local that the function assigns exactly
// once, from an element or field address; the address it holds is returned.
func resolvePtrLocal(v ssa.Value) ssa.Value {
	u, ok := v.(*ssa.UnOp)
	if !ok || u.Op != token.MUL {
		return nil
	}
	al, ok := u.X.(*ssa.Alloc)
	if !ok || al.Parent() == nil {
		return nil
	}
	if _, isPtr := deref(al.Type()).Underlying().(*types.Pointer); !isPtr {
		return nil
	}
	var val ssa.Value
	n := 0
	for _, b := range al.Parent().Blocks {
		for _, ins := range b.Instrs {
			if st, ok := ins.(*ssa.Store); ok && st.Addr == ssa.Value(al) {
				n++
				val = st.Val
			}
		}
	}
	if n != 1 {
		return nil
	}
	switch val.(type) {
	case *ssa.IndexAddr, *ssa.FieldAddr:
		return val
	}
	return nil
}
