package main

import (
	"encoding/json"
	"flag"
	"fmt"
	"os"
	"os/exec"
	"sort"
	"strings"
)

func main() {
	if len(os.Args) < 2 {
		fmt.Fprintln(os.Stderr, "usage: govc vc|check|replay ...")
		os.Exit(2)
	}
	switch os.Args[1] {
	case "vc":
		cmdVC(os.Args[2:])
	case "check":
		os.Exit(cmdCheck(os.Args[2:]))
	case "locals":
		os.Exit(cmdLocals(os.Args[2:]))
	case "replay":
		os.Exit(cmdReplay(os.Args[2:]))
	case "list":
		props, err := loadProps("/verif")
		if err != nil {
			fmt.Println(err)
			os.Exit(2)
		}
		var ids []string
		for id := range props {
			ids = append(ids, id)
		}
		sort.Strings(ids)
		fmt.Println(strings.Join(ids, "\n"))
	default:
		fmt.Fprintln(os.Stderr, "unknown command")
		os.Exit(2)
	}
}

// vc: developer command — verify the listed functions/lemmas and print every obligation.
func cmdVC(args []string) {
	fs := flag.NewFlagSet("vc", flag.ExitOnError)
	repo := fs.String("repo", "/repo", "")
	secs := fs.Int("t", 20, "")
	work := fs.String("work", "/verif/.work/vc", "")
	verbose := fs.Bool("v", false, "")
	fs.Parse(args)
	os.MkdirAll(*work, 0755)
	e := NewEngine(*repo, *work)
	if err := e.Load("./..."); err != nil {
		fmt.Println("load:", err)
		os.Exit(2)
	}
	if err := e.LoadContracts("/verif/stdlib_contracts"); err != nil {
		fmt.Println("contracts:", err)
		os.Exit(2)
	}
	for _, a := range fs.Args() {
		if strings.HasPrefix(a, "lemma:") {
			e.VerifyLemma(strings.TrimPrefix(a, "lemma:"))
		} else if strings.HasPrefix(a, "witness:") {
			var ws WitnessSpec
			spec := strings.TrimPrefix(a, "witness:")
			if strings.HasPrefix(spec, "{") {
				if err := json.Unmarshal([]byte(spec), &ws); err != nil {
					fmt.Println("witness spec:", err)
					os.Exit(2)
				}
			} else {
				ws.Func = spec
			}
			reps, fails := e.runWitness(*repo, *work, []WitnessSpec{ws}, 1, "quick", *secs)
			for _, r := range reps {
				out, _ := json.Marshal(r)
				fmt.Println("witness:", string(out))
			}
			for _, f := range fails {
				fmt.Printf("WITNESS-FAIL %s [%s] input: %s — %s\n", f.Obligation, f.Class, f.Input, f.Detail)
			}
		} else if strings.HasPrefix(a, "static:") {
			e.runStatic(strings.TrimPrefix(a, "static:"))
		} else {
			e.runVerify(a)
		}
	}
	e.Solve(*secs, 8)
	bad := 0
	for _, n := range e.oblOrd {
		o := e.obls[n]
		if o.Status != "discharged" {
			bad++
		}
		if *verbose || o.Status != "discharged" {
			fmt.Printf("%-11s %-60s q=%d %.2fs %s %s\n", o.Status, o.Name, len(o.Queries), o.Secs, o.Solver, o.Note)
		}
	}
	fmt.Printf("obligations=%d not-discharged=%d\n", len(e.oblOrd), bad)
	for n := range e.notes {
		fmt.Println("note:", n)
	}
}

func (e *Engine) runVerify(key string) {
	full := key
	if strings.HasPrefix(key, "poly.") {
		full = modPath + "." + strings.TrimPrefix(key, "poly.")
	} else if !strings.HasPrefix(key, modPath) {
		full = modPath + "/" + key
		if !strings.Contains(key, "/") && e.cs.Funcs[modPath+"."+key] != nil {
			full = modPath + "." + key
		}
	}
	defer func() {
		if r := recover(); r != nil {
			if ce, ok := r.(cevalErr); ok {
				e.failObligation(shortKey(full)+"/contract", "contract", shortKey(full), "contract is well-formed", ce.msg)
				return
			}
			panic(r)
		}
	}()
	e.VerifyFunc(full)
}

// replay: re-run what a replay file records (the bounded test / the in-package
// replay / the check itself) and show the recorded failure.
func cmdReplay(args []string) int {
	if len(args) < 1 {
		fmt.Println("usage: check --replay <file>")
		return 2
	}
	data, err := os.ReadFile(args[0])
	if err != nil {
		fmt.Println(err)
		return 2
	}
	var rec struct {
		Property string  `json:"property"`
		Failure  Failure `json:"failure"`
		Tier     string  `json:"tier"`
	}
	if err := json.Unmarshal(data, &rec); err != nil {
		fmt.Println(err)
		return 2
	}
	fmt.Printf("property %s\nobligation %s [%s]\nbackend %s\n%s\n", rec.Property, rec.Failure.Obligation, rec.Failure.Class, rec.Failure.Backend, rec.Failure.Detail)
	if rec.Failure.Input != "" {
		fmt.Println("input:", rec.Failure.Input)
	}
	if rec.Failure.SMTFile != "" {
		fmt.Println("smt query:", rec.Failure.SMTFile)
	}
	if rec.Failure.SolverOut != "" {
		fmt.Println("solver:", rec.Failure.SolverOut)
	}
	cmdline := rec.Failure.Replay
	if cmdline == "" {
		cmdline = "cd /verif && ./check " + rec.Property + " --tier " + rec.Tier
	}
	fmt.Println("re-running:", cmdline)
	c := exec.Command("bash", "-c", cmdline)
	c.Env = goEnv()
	out, _ := c.CombinedOutput()
	txt := string(out)
	if len(txt) > 6000 {
		txt = txt[len(txt)-6000:]
	}
	fmt.Println(txt)
	if strings.Contains(txt, "VIOLATION") || strings.Contains(txt, "GOVC-REPLAY panic") || strings.Contains(txt, "GOVC-REPLAY violated") || strings.Contains(txt, rec.Failure.Class+"\"") {
		fmt.Printf("VIOLATION property=%s replay=%s\n", rec.Property, args[0])
		return 1
	}
	return 0
}

// locals: (re)write the `locals` clause of every function contract that has loop
// invariants, from the current code. Run when a contract is written or updated.
func cmdLocals(args []string) int {
	e := NewEngine("/repo", "/verif/.work/locals")
	if err := e.Load("./..."); err != nil {
		fmt.Println(err)
		return 2
	}
	if err := e.LoadContracts("/verif/stdlib_contracts"); err != nil {
		fmt.Println(err)
		return 2
	}
	byFile := map[string][]*FuncContract{}
	for _, c := range e.cs.Funcs {
		if c.Trusted || len(c.Loops) == 0 {
			continue
		}
		byFile[c.File] = append(byFile[c.File], c)
	}
	for file, cons := range byFile {
		data, err := os.ReadFile(file)
		if err != nil {
			continue
		}
		lines := strings.Split(string(data), "\n")
		var out []string
		for i := 0; i < len(lines); i++ {
			ln := lines[i]
			t := strings.TrimSpace(ln)
			if strings.HasPrefix(t, "//@") && strings.HasPrefix(strings.TrimSpace(strings.TrimPrefix(t, "//@")), "locals ") {
				continue // dropped; re-added below
			}
			out = append(out, ln)
			if strings.HasPrefix(t, "//@ func ") {
				for _, c := range cons {
					key, _, _, err := parseFuncSig(strings.TrimSpace(strings.TrimPrefix(t, "//@ func ")), c.Pkg)
					if err == nil && key == c.Key {
						if fn := e.lookupFunc(c.Key); fn != nil {
							out = append(out, "//@   locals "+strings.Join(namedLocalsTyped(fn), " "))
						}
					}
				}
			}
		}
		os.WriteFile(file, []byte(strings.Join(out, "\n")), 0644)
		fmt.Println("updated", file)
	}
	return 0
}
