package main

import (
	"fmt"
	"go/constant"
	"go/token"
	"go/types"
	"regexp"
	"strconv"
	"strings"

	"golang.org/x/tools/go/ssa"
)

// call models one call instruction. Returns the result value and whether the
// path ends here (callee never returns).
func (fc *funcCtx) call(st *State, ins ssa.Instruction, com *ssa.CallCommon, isGo bool) (Value, bool) {
	pos := ins.Pos()
	if com.IsInvoke() {
		return fc.invoke(st, ins, com)
	}
	if b, ok := com.Value.(*ssa.Builtin); ok {
		return fc.builtin(st, ins, b, com), false
	}
	var callee *ssa.Function
	var bind []Value
	switch v := com.Value.(type) {
	case *ssa.Function:
		callee = v
	case *ssa.MakeClosure:
		callee = v.Fn.(*ssa.Function)
		for _, b := range v.Bindings {
			bind = append(bind, fc.val(st, b))
		}
	default:
		switch fv := fc.val(st, com.Value).(type) {
		case FuncV:
			callee = fv.Fn
			bind = fv.Bind
		case Sc:
			// a function value known only by its id: a pure (deterministic) function of its arguments
			if r, ok := fc.applyPure(st, fv, com); ok {
				return r, false
			}
		}
	}
	var args []Value
	for _, a := range com.Args {
		args = append(args, fc.val(st, a))
	}
	if callee == nil {
		// call through a function value we know nothing about
		fc.e.note("call through unknown function value in " + shortKey(fc.key) + ": results arbitrary")
		return fc.unknownCall(st, com, args), false
	}
	key := funcKey(callee)
	if callee.Name() == "deferstack" || strings.HasPrefix(callee.Name(), "ssa:") {
		return OpaqueV{"deferstack"}, false
	}
	if r, ok, halt := fc.nativeCall(st, ins, key, callee, args); ok {
		return r, halt
	}
	if con := fc.e.cs.Funcs[key]; con != nil {
		return fc.applyContract(st, ins, callee, con, args, bind, isGo), false
	}
	_ = pos
	if !isGo && len(bind) == 0 {
		if r, halt, ok := fc.tryInline(st, callee, args, com.Args); ok {
			return r, halt
		}
	}
	fc.e.note("call to " + shortKey(key) + " has no contract: results arbitrary, reachable storage havocked")
	return fc.unknownCall(st, com, args), false
}

// tryInline executes a module function that has no contract in place of the call, when it
// is loop-free, defer-free and not (mutually) recursive: extracting a few statements into a
// helper then needs no new contract. Its panic sites become obligations of the caller's run.
func (fc *funcCtx) tryInline(st *State, callee *ssa.Function, args []Value, ssaArgs []ssa.Value) (res Value, halt bool, ok bool) {
	if fc.inlineDepth >= 2 || callee == fc.fn || len(callee.Blocks) == 0 || callee.Pkg == nil || !strings.HasPrefix(callee.Pkg.Pkg.Path(), modPath) {
		return nil, false, false
	}
	for _, b := range callee.Blocks {
		for _, succ := range b.Succs {
			if succ.Dominates(b) {
				return nil, false, false // a loop needs an invariant
			}
		}
		for _, ins := range b.Instrs {
			switch x := ins.(type) {
			case *ssa.Defer, *ssa.Go, *ssa.Select, *ssa.MapUpdate, *ssa.Send:
				return nil, false, false
			case *ssa.Store:
				// only its own locals: a helper that writes through its arguments needs a contract (frame)
				if !rootedInOwnAlloc(x.Addr) && !throughScalarPtrParam(x.Addr) {
					return nil, false, false
				}
			}
		}
	}
	// a computation that only reads: values, strings, slices, structs and maps may come in and go out,
	// pointers, channels and functions may not (what they reach could be written by a library call)
	sig := callee.Signature
	readOnlyType := func(t types.Type) bool {
		return !typeHasPointerLike(t, map[types.Type]bool{})
	}
	for i := 0; i < sig.Params().Len(); i++ {
		pt := sig.Params().At(i).Type()
		if ptr, isPtr := pt.Underlying().(*types.Pointer); isPtr && isTextBuffer(ptr.Elem()) {
			continue // a text buffer is a ghost string cell of the caller; writing it touches no heap storage
		}
		if ptr, isPtr := pt.Underlying().(*types.Pointer); isPtr && i < len(ssaArgs) && i < len(args) {
			// the address of a scalar local of the caller, written at the call site as &x: the callee
			// reads and writes that one cell, which the caller's loops already count as modified
			if _, basic := ptr.Elem().Underlying().(*types.Basic); basic {
				if al, isAlloc := ssaArgs[i].(*ssa.Alloc); isAlloc {
					if pv, isPtrV := args[i].(PtrV); isPtrV && !pv.Heap && pv.OSeq == nil && pv.Cell == interface{}(al) {
						continue
					}
				}
			}
		}
		if !readOnlyType(pt) {
			return nil, false, false
		}
	}
	for i := 0; i < sig.Results().Len(); i++ {
		if !readOnlyType(sig.Results().At(i).Type()) {
			return nil, false, false
		}
	}
	if sig.Recv() != nil && !readOnlyType(sig.Recv().Type()) {
		return nil, false, false
	}
	for _, b := range callee.Blocks {
		for _, ins := range b.Instrs {
			if c, ok := ins.(ssa.CallInstruction); ok {
				if bi, ok := c.Common().Value.(*ssa.Builtin); ok {
					switch bi.Name() {
					case "append", "copy", "delete", "close":
						return nil, false, false // would write storage shared with the caller
					}
				}
			}
		}
	}
	e := fc.e
	pos := e.fset.Position(callee.Pos())
	var rets []inlineRet
	con := &FuncContract{}
	for _, p := range callee.Params {
		con.Params = append(con.Params, p.Name())
	}
	fc2 := &funcCtx{e: e, fn: callee, key: funcKey(callee), con: con, loops: map[*ssa.BasicBlock]*Loop{}, src: e.source(pos.Filename), maxPath: 64,
		siteOrd: map[string][]token.Pos{}, covered: map[*ssa.BasicBlock]bool{}, rename: map[string]string{}, inlineDepth: fc.inlineDepth + 1, collector: &rets}
	fc2.indexSites()
	fc2.ipdom = ipdoms(callee)
	savedNamed := map[string]interface{}{}
	for k, v := range st.named {
		savedNamed[k] = v
	}
	st2 := st.clone()
	// the callee's blocks belong to none of the caller's loops: run it with an empty loop stack
	// (the edge handling would otherwise pop the caller's frames) and put the stack back afterwards
	savedLoops := st.loops
	st2.loops = nil
	for i, p := range callee.Params {
		if i < len(args) {
			st2.regs[p] = args[i]
		}
	}
	aborted := false
	func() {
		defer func() {
			if r := recover(); r != nil {
				if ab, isAbort := r.(engineAbort); isAbort {
					aborted = true
					e.note("inlining " + shortKey(funcKey(callee)) + " abandoned: " + ab.msg)
					return
				}
				panic(r)
			}
		}()
		fc2.run(callee.Blocks[0], st2)
	}()
	if aborted {
		return nil, false, false
	}
	e.note("call to " + shortKey(funcKey(callee)) + " (no contract, loop-free) is executed in place in " + shortKey(fc.key))
	if len(rets) == 0 {
		return nil, true, true // every path of the callee ends in a panic obligation
	}
	pack := func(rs []Value) Value {
		switch len(rs) {
		case 0:
			return TupleV{}
		case 1:
			return rs[0]
		}
		return TupleV(rs)
	}
	var arrived []*State
	for _, r := range rets {
		r.st.cells["inline:ret"] = pack(r.res)
		arrived = append(arrived, r.st)
	}
	merged, mok := fc.mergeStates(st, len(st.facts), len(st.decls), arrived)
	if !mok {
		e.note("inlining " + shortKey(funcKey(callee)) + " abandoned: its return paths cannot be merged")
		return nil, false, false
	}
	out := merged.cells["inline:ret"]
	delete(merged.cells, "inline:ret")
	merged.named = savedNamed
	merged.loops = savedLoops
	*st = *merged
	return out, false, true
}

func (fc *funcCtx) unknownCall(st *State, com *ssa.CallCommon, args []Value) Value {
	// the channel protocol cannot be established once a channel is handed to code without a contract
	for i, a := range args {
		if ch, ok := a.(ChanV); ok && ch.ID != "nilchan" {
			name := "arg"
			if i < len(com.Args) {
				name = fc.chanName(com.Args[i])
			}
			fc.oblige(st, "chan-escape", name+"/"+fc.site(com.Pos(), "call"), "false", "channel "+name+" is passed to a function that has no contract: sends, closes and blocking behaviour on it are no longer under contract")
		}
	}
	// anything reachable through pointer/slice arguments may have changed
	for _, a := range args {
		switch x := a.(type) {
		case PtrV:
			if !x.Heap && x.Cell != nil {
				if old, ok := st.cells[x.Cell]; ok {
					st.cells[x.Cell] = fc.havocValue(st, old, "havoc")
				}
			}
		case SliceV:
			for k := range st.heaps {
				st.heaps[k] = st.freshConst("heap", heapSort(sortOfHeapKey(k)))
			}
		}
	}
	res := com.Signature().Results()
	switch res.Len() {
	case 0:
		return TupleV{}
	case 1:
		return fc.e.fresh(st, res.At(0).Type(), "ret")
	}
	return fc.e.fresh(st, res, "ret")
}

// applyContract replaces the call by the callee's contract.
func (fc *funcCtx) applyContract(st *State, ins ssa.Instruction, callee *ssa.Function, con *FuncContract, args []Value, bind []Value, isGo bool) Value {
	if con.Trusted {
		fc.e.mu.Lock()
		fc.e.used["assumed contract: "+con.Key] = true
		fc.e.mu.Unlock()
	} else if callee != fc.fn {
		fc.e.mu.Lock()
		fc.e.used["callee contract used at a call site: "+shortKey(con.Key)+" (its body is verified against it by the check of the property it belongs to)"] = true
		fc.e.mu.Unlock()
	}
	if len(con.Params) != len(args) {
		fc.abort("contract of %s names %d parameters, call passes %d", con.Key, len(con.Params), len(args))
	}
	env := &Env{vars: map[string]Value{}, st: st, fc: fc}
	for i, n := range con.Params {
		env.vars[n] = args[i]
	}
	for i, fv := range callee.FreeVars {
		if i < len(bind) {
			if p, ok := bind[i].(PtrV); ok && !p.Heap {
				if v, ok := st.cells[p.Cell]; ok {
					env.vars[fv.Name()] = v
				}
			}
		}
	}
	site := fc.site(ins.Pos(), "call")
	if site == "?" {
		if ci, ok := ins.(ssa.CallInstruction); ok {
			site = fc.site(ci.Common().Pos(), "call")
		}
	}
	if callee == fc.fn {
		// self-recursion: the measure must decrease and be bounded below
		if con.Decreases != nil {
			m1 := fc.e.cevalScalar(con.Decreases, env)
			m0 := fc.e.cevalScalar(con.Decreases, fc.entryEnv(st))
			fc.oblige(st, "recursion-decreases", site, and(app("<", m1.T, m0.T), app("<=", "0", m0.T)), "recursive call on a smaller measure: "+con.DecSrc)
		} else if con.Terminates {
			fc.oblige(st, "recursion-decreases", site, "false", "recursive call without a measure (termination not shown)")
		}
	}
	for i, r := range con.Requires {
		g := fc.e.cevalBool(r.E, env)
		fc.oblige(st, "pre@call", site+"/"+clauseLabel(r, i), g, "precondition of "+shortKey(con.Key)+": "+r.Src)
	}
	if isGo {
		// a spawned goroutine: its preconditions must hold at the spawn; nothing about its
		// (later) effects is assumed here
		return TupleV{}
	}
	sig := callee.Signature.Results()
	var results []Value
	for i := 0; i < sig.Len(); i++ {
		rn := fmt.Sprintf("r%d", i)
		if i < len(con.Results) {
			rn = con.Results[i]
		}
		v := fc.e.fresh(st, sig.At(i).Type(), rn)
		if iv, isIface := v.(IfaceV); isIface {
			for _, nt := range con.Notes {
				if nt == "result-dynamic-type string" {
					iv.DT = types.Typ[types.String]
					iv.Dyn = Sc{st.freshConst(rn+"_str", SStr), SStr}
					iv.Nil = "false"
					v = iv
				}
			}
		}
		// fresh slice results are new storage unless the contract says otherwise
		results = append(results, v)
		env.vars[rn] = v
	}
	// the callee may have allocated: results point below the new allocation counter
	{
		nb := st.freshConst("allocbase", SInt)
		st.assume(app("<=", app("+", st.allocBase, smtInt(int64(st.allocOff))), nb))
		st.allocBase, st.allocOff = nb, 0
		for _, r := range results {
			if sv, ok := r.(SliceV); ok {
				st.assume(app("<", sv.Ref, nb))
			}
		}
	}
	for _, en := range con.Ensures {
		st.assume(fc.e.cevalBool(en.E, env))
	}
	for i, en := range con.Bounded {
		st.assume(fc.e.cevalBool(en.E, env))
		fc.e.mu.Lock()
		fc.e.used["bounded-only clause assumed at a call site: "+shortKey(con.Key)+"/"+clauseLabel(en, i)+" ("+en.Src+")"] = true
		fc.e.mu.Unlock()
	}
	switch len(results) {
	case 0:
		return TupleV{}
	case 1:
		return results[0]
	}
	return TupleV(results)
}

func (fc *funcCtx) builtin(st *State, ins ssa.Instruction, b *ssa.Builtin, com *ssa.CallCommon) Value {
	switch b.Name() {
	case "len", "cap":
		v := fc.val(st, com.Args[0])
		switch x := v.(type) {
		case Sc:
			return Sc{app("gs.len", x.T), SInt}
		case SliceV:
			if b.Name() == "cap" {
				return Sc{x.Cap, SInt}
			}
			return Sc{x.Len, SInt}
		case OSeqV:
			return Sc{x.lenTerm(), SInt}
		case MapV:
			n := st.freshConst("maplen", SInt)
			st.assume(app("<=", "0", n))
			return Sc{n, SInt}
		case ChanV:
			n := st.freshConst("chanlen", SInt)
			st.assume(app("<=", "0", n))
			return Sc{n, SInt}
		}
		fc.abort("len of %T", v)
	case "append":
		return fc.appendCall(st, ins, com)
	case "close":
		ch, ok := fc.val(st, com.Args[0]).(ChanV)
		if !ok {
			fc.abort("close of non-channel")
		}
		cs := st.chans[ch.ID]
		if cs == nil {
			fc.abort("close of unknown channel")
		}
		fc.oblige(st, "chan-close-once", fc.chanName(com.Args[0]), not(cs.Closed), "channel is closed at most once")
		cs.Closed = "true"
		return TupleV{}
	case "panic":
		fc.oblige(st, "no-panic", fc.site(ins.Pos(), "call"), "false", "explicit panic is unreachable")
		return TupleV{}
	case "print", "println":
		return TupleV{}
	case "ssa:deferstack":
		return OpaqueV{"deferstack"}
	case "ssa:wrapnilchk":
		return fc.val(st, com.Args[0])
	}
	fc.abort("unsupported builtin %s", b.Name())
	return nil
}

// append on slices of scalars. Within capacity it writes in place (aliasing is
// real); beyond capacity it allocates a new backing array and copies.
func (fc *funcCtx) appendCall(st *State, ins ssa.Instruction, com *ssa.CallCommon) Value {
	dst, ok := fc.val(st, com.Args[0]).(SliceV)
	if !ok {
		fc.abort("append to %T", fc.val(st, com.Args[0]))
	}
	es, scalar := scalarSort(dst.Elem)
	switch src := fc.val(st, com.Args[1]).(type) {
	case SliceV:
		n := src.Len
		newLen := app("+", dst.Len, n)
		ref := st.freshConst("app_ref", SInt)
		off := st.freshConst("app_off", SInt)
		cp := st.freshConst("app_cap", SInt)
		inPlace := app("<=", newLen, dst.Cap)
		fresh := app("+", st.allocBase, smtInt(int64(st.allocOff)))
		st.allocOff++
		st.assume(fmt.Sprintf("(ite %s (and (= %s %s) (= %s %s) (= %s %s)) (and (= %s %s) (= %s 0) (>= %s %s)))", inPlace, ref, dst.Ref, off, dst.Off, cp, dst.Cap, ref, fresh, off, cp, newLen))
		_ = scalar
		_ = es
		dls, _ := leavesOf(dst.Elem)
		sls, _ := leavesOf(src.Elem)
		for li, l := range dls {
			h := fc.heap(st, l.key)
			srcH := ""
			if li < len(sls) {
				srcH = fc.heap(st, sls[li].key)
			}
			nh := st.freshConst("heap", heapSort(l.sort))
			// other references unchanged; target row: old prefix kept/copied, new elements appended
			st.assume(frameOtherRows(nh, h, ref))
			st.assume(fmt.Sprintf("(forall ((i Int)) (! (=> (and (<= 0 i) (< i %s)) (= (select (select %s %s) (gs.ix %s i)) (select (select %s %s) (gs.ix %s i)))) :pattern ((select (select %s %s) (gs.ix %s i)))))", dst.Len, nh, ref, off, h, dst.Ref, dst.Off, nh, ref, off))
			if srcH != "" {
				st.assume(fmt.Sprintf("(forall ((i Int)) (! (=> (and (<= 0 i) (< i %s)) (= (select (select %s %s) (gs.ix %s (+ %s i))) (select (select %s %s) (gs.ix %s i)))) :pattern ((select (select %s %s) (gs.ix %s (+ %s i))))))", n, nh, ref, off, dst.Len, srcH, src.Ref, src.Off, nh, ref, off, dst.Len))
			}
			if srcH != "" && n == "1" {
				// the common single-element append, stated without a quantifier
				st.assume(app("=", app("select", app("select", nh, ref), elemIx(off, dst.Len)), app("select", app("select", srcH, src.Ref), elemIx(src.Off, "0"))))
			}
			// in place: cells of the row outside the appended range keep their value
			if n == "1" {
				st.assume(fmt.Sprintf("(=> %s (forall ((j Int)) (! (=> (not (= j %s)) (= (select (select %s %s) j) (select (select %s %s) j))) :pattern ((select (select %s %s) j)))))", inPlace, elemIx(off, dst.Len), nh, ref, h, dst.Ref, nh, ref))
			} else {
				st.assume(fmt.Sprintf("(=> %s (forall ((j Int)) (! (=> (or (< j (+ %s %s)) (>= j (+ %s %s %s))) (= (select (select %s %s) j) (select (select %s %s) j))) :pattern ((select (select %s %s) j)))))", inPlace, off, dst.Len, off, dst.Len, n, nh, ref, h, dst.Ref, nh, ref))
			}
			st.heaps[l.key] = nh
		}
		if fc.frameChecked() {
			fc.oblige(st, "frame", "append/"+fc.site(ins.Pos(), "call"), app(">=", ref, st.entryBase), "append writes only storage allocated by this call")
		}
		return SliceV{Ref: ref, Off: off, Len: newLen, Cap: cp, Elem: dst.Elem}
	case Sc: // append([]byte, string...)
		fc.abort("append(bytes, string...) not supported")
	}
	fc.abort("unsupported append")
	return nil
}

func (fc *funcCtx) chanName(v ssa.Value) string {
	if p, ok := v.(*ssa.Parameter); ok {
		return p.Name()
	}
	if u, ok := v.(*ssa.UnOp); ok {
		if a, ok := u.X.(*ssa.Alloc); ok && a.Comment != "" {
			return a.Comment
		}
	}
	return v.Name()
}

func (fc *funcCtx) send(st *State, x *ssa.Send) {
	ch, ok := fc.val(st, x.Chan).(ChanV)
	if !ok {
		fc.abort("send on non-channel")
	}
	cs := st.chans[ch.ID]
	if cs == nil {
		fc.abort("send on unknown channel")
	}
	name := fc.chanName(x.Chan)
	fc.oblige(st, "chan-send-open", name+"/"+fc.site(x.Pos(), "send"), not(cs.Closed), "no send on a closed channel")
	cs.Sent = append(cs.Sent, fc.val(st, x.X))
	cs.NSent = app("+", cs.NSent, "1")
	fc.ghostOnSend(st, name, x)
}

func (fc *funcCtx) recv(st *State, x *ssa.UnOp) {
	t := x.X.Type().Underlying().(*types.Chan).Elem()
	v := fc.e.fresh(st, t, "recv")
	if sc, ok := v.(Sc); ok && sc.S == SStr && fc.chanElemAscii(fc.chanName(x.X)) {
		st.assume(app("gs.ascii", sc.T))
	}
	if x.CommaOk {
		st.regs[x] = TupleV{v, Sc{st.freshConst("more", SBool), SBool}}
	} else {
		st.regs[x] = v
	}
}

// invoke: dynamic dispatch. Only error.Error() and a few known interfaces.
func (fc *funcCtx) invoke(st *State, ins ssa.Instruction, com *ssa.CallCommon) (Value, bool) {
	recv := fc.val(st, com.Value)
	name := com.Method.FullName()
	if r, ok := fc.nativeInvoke(st, ins, name, recv, com); ok {
		return r, false
	}
	fc.e.note("dynamic call " + name + " unmodelled: results arbitrary")
	res := com.Signature().Results()
	switch res.Len() {
	case 0:
		return TupleV{}, false
	case 1:
		return fc.e.fresh(st, res.At(0).Type(), "ret"), false
	}
	return fc.e.fresh(st, res, "ret"), false
}

// nativeCall: library functions modelled directly in the engine (ghost text
// buffers, error construction, WaitGroup protocol). Everything here is part
// of the assumed base and listed in the evidence.
func (fc *funcCtx) nativeCall(st *State, ins ssa.Instruction, key string, callee *ssa.Function, args []Value) (Value, bool, bool) {
	use := func(s string) {
		fc.e.mu.Lock()
		fc.e.used["engine model: "+s] = true
		fc.e.mu.Unlock()
	}
	bufCell := func() (PtrV, Sc) {
		p, ok := args[0].(PtrV)
		if !ok {
			fc.abort("text buffer method on %T", args[0])
		}
		v := fc.load(st, p, ins.Pos())
		s, ok := v.(Sc)
		if !ok {
			fc.abort("text buffer content is %T", v)
		}
		return p, s
	}
	switch key {
	case "strings.Builder.WriteString", "bytes.Buffer.WriteString":
		use(key + " appends its argument")
		p, s := bufCell()
		a := args[1].(Sc)
		fc.store(st, p, Sc{catTerm(s.T, a.T), SStr}, ins.Pos())
		return TupleV{Sc{app("gs.len", a.T), SInt}, IfaceV{Nil: "true", Tag: "0"}}, true, false
	case "strings.Builder.WriteRune", "bytes.Buffer.WriteRune", "strings.Builder.WriteByte", "bytes.Buffer.WriteByte":
		use(key + " appends one byte (ASCII only for runes)")
		p, s := bufCell()
		a := args[1].(Sc)
		if strings.HasSuffix(key, "WriteRune") {
			fc.oblige(st, "ascii", "WriteRune/"+fc.site(ins.Pos(), "call"), and(app("<=", "0", a.T), app("<", a.T, "128")), "WriteRune is modelled for ASCII only")
		}
		one := app("gs.chr", a.T)
		if c, err := strconv.Atoi(a.T); err == nil && c > 0 && c < 128 {
			// a constant character is the one-letter literal, whichever call wrote it
			one = fc.e.literal(string(rune(c)))
		}
		fc.store(st, p, Sc{catTerm(s.T, one), SStr}, ins.Pos())
		if strings.HasSuffix(key, "WriteByte") {
			return IfaceV{Nil: "true", Tag: "0"}, true, false
		}
		return TupleV{Sc{"1", SInt}, IfaceV{Nil: "true", Tag: "0"}}, true, false
	case "strings.Builder.String", "bytes.Buffer.String":
		use(key + " returns the accumulated text")
		_, s := bufCell()
		return s, true, false
	case "strings.Builder.Len", "bytes.Buffer.Len":
		_, s := bufCell()
		return Sc{app("gs.len", s.T), SInt}, true, false
	case "strings.Builder.Reset", "bytes.Buffer.Reset":
		p, _ := bufCell()
		fc.store(st, p, Sc{"gs.empty", SStr}, ins.Pos())
		return TupleV{}, true, false
	case "bytes.Buffer.Bytes":
		use(key + " returns the accumulated text as bytes")
		_, s := bufCell()
		res := fc.alloc(st, types.Typ[types.Uint8], app("gs.len", s.T), app("gs.len", s.T), false)
		h := fc.heap(st, SInt)
		nh := st.freshConst("heap", heapSort(SInt))
		st.assume(fmt.Sprintf("(forall ((r Int)) (! (=> (not (= r %s)) (= (select %s r) (select %s r))) :pattern ((select %s r))))", res.Ref, nh, h, nh))
		st.assume(fmt.Sprintf("(forall ((i Int)) (! (=> (and (<= 0 i) (< i (gs.len %s))) (= (select (select %s %s) i) (gs.at %s i))) :pattern ((select (select %s %s) i))))", s.T, nh, res.Ref, s.T, nh, res.Ref))
		st.heaps[SInt] = nh
		return res, true, false
	case "strings.Map":
		// strings.Map(f, s) for ASCII s and a mapping with a contract: pointwise image.
		use("strings.Map(f, s) on ASCII text is the pointwise image under f (f never negative, results ASCII)")
		fv, ok := args[0].(FuncV)
		if !ok {
			fc.abort("strings.Map with unknown mapping")
		}
		mcon := fc.e.cs.Funcs[funcKey(fv.Fn)]
		if mcon == nil || len(mcon.Params) != 1 || len(mcon.Results) != 1 {
			fc.abort("strings.Map: mapping %s has no contract", funcKey(fv.Fn))
		}
		s := args[1].(Sc)
		site := fc.site(ins.Pos(), "call")
		fc.oblige(st, "ascii", "strings.Map/"+site, app("gs.ascii", s.T), "strings.Map is modelled for ASCII input only")
		// side condition on the mapping: ASCII in, ASCII (non-negative, one byte) out
		{
			st2 := st.clone()
			c := st2.freshConst("c", SInt)
			rc := st2.freshConst("rc", SInt)
			st2.assume(and(app("<=", "0", c), app("<", c, "128")))
			env := &Env{vars: map[string]Value{mcon.Params[0]: Sc{c, SInt}, mcon.Results[0]: Sc{rc, SInt}}, st: st2, fc: fc}
			for _, en := range mcon.Ensures {
				st2.assume(fc.e.cevalBool(en.E, env))
			}
			fc.oblige(st2, "ascii", "strings.Map/"+site+"/mapping", and(app("<=", "0", rc), app("<", rc, "128")), "the mapping sends ASCII to ASCII (so the result has the same length)")
		}
		r := st.freshConst("mapped", SStr)
		st.assume(app("=", app("gs.len", r), app("gs.len", s.T)))
		env := &Env{vars: map[string]Value{mcon.Params[0]: Sc{app("gs.at", s.T, "i"), SInt}, mcon.Results[0]: Sc{app("gs.at", r, "i"), SInt}}, st: st, fc: fc, bound: map[string]string{"i": SInt}}
		var posts []string
		for _, en := range mcon.Ensures {
			posts = append(posts, fc.e.cevalBool(en.E, env))
		}
		st.assume(fmt.Sprintf("(forall ((i Int)) (! (=> (and (<= 0 i) (< i (gs.len %s))) %s) :pattern ((gs.at %s i))))", s.T, and(posts...), r))
		return Sc{r, SStr}, true, false
	case "lukechampine.com/blake3.Sum256":
		use("blake3.Sum256 is a function of the bytes hashed (uninterpreted; collision-freedom is a separate named assumption)")
		sv, ok := args[0].(SliceV)
		if !ok || sv.Str == "" {
			fc.abort("blake3.Sum256 of bytes whose text is unknown")
		}
		return Sc{app("blake3sum", sv.Str), SStr}, true, false
	case "encoding/hex.EncodeToString":
		use("hex.EncodeToString is an injective function of its input, doubling the length")
		sv, ok := args[0].(SliceV)
		if !ok || sv.Str == "" {
			fc.abort("hex.EncodeToString of bytes whose text is unknown")
		}
		return Sc{app("hexenc", sv.Str), SStr}, true, false
	case "regexp.Compile", "regexp.MustCompile":
		// a constant pattern is compiled here, by the same library: the error result is decided
		if c, ok := callee.Params, true; ok && len(c) == 1 {
			if ci, isCall := ins.(ssa.CallInstruction); isCall {
				if pc, isConst := ci.Common().Args[0].(*ssa.Const); isConst && pc.Value != nil {
					_, cerr := regexp.Compile(constant.StringVal(pc.Value))
					use("regexp.Compile of the constant pattern " + strconv.Quote(constant.StringVal(pc.Value)) + " evaluated by the generator with the same library")
					key := fmt.Sprintf("regexp:%d", freshCounter)
					freshCounter++
					st.cells[key] = Sc{"0", SInt}
					ptr := PtrV{Cell: key, IsNil: "false"}
					if key == "regexp.MustCompile" || callee.Signature.Results().Len() == 1 {
						if cerr != nil {
							fc.oblige(st, "no-panic", fc.site(ins.Pos(), "call"), "false", "regexp.MustCompile panics on this pattern")
						}
						return ptr, true, false
					}
					nilT := "true"
					if cerr != nil {
						nilT = "false"
					}
					return TupleV{ptr, IfaceV{Nil: nilT, Tag: "0"}}, true, false
				}
			}
		}
		return nil, false, false
	case "sort.Strings":
		use("sort.Strings on two elements leaves (min, max) under Go's string order; on other lengths the contents become an arbitrary sorted permutation (only 'unchanged elsewhere' is kept)")
		sv, ok := args[0].(SliceV)
		if !ok {
			fc.abort("sort.Strings on %T", args[0])
		}
		if sv.Len != "2" {
			h := fc.heap(st, SStr)
			nh := st.freshConst("heap", heapSort(SStr))
			st.assume(frameOtherRows(nh, h, sv.Ref))
			st.heaps[SStr] = nh
			if fc.frameChecked() {
				fc.oblige(st, "frame", "sort.Strings/"+fc.site(ins.Pos(), "call"), or(app("=", sv.Len, "0"), app(">=", sv.Ref, st.entryBase)), "sort.Strings reorders only storage allocated by this call")
			}
			return TupleV{}, true, false
		}
		h := fc.heap(st, SStr)
		a := app("select", app("select", h, sv.Ref), sv.Off)
		b := app("select", app("select", h, sv.Ref), elemIx(sv.Off, "1"))
		lo := fmt.Sprintf("(ite (gs.lt %s %s) %s %s)", b, a, b, a)
		hi := fmt.Sprintf("(ite (gs.lt %s %s) %s %s)", b, a, a, b)
		st.heaps[SStr] = app("store", h, sv.Ref, app("store", app("store", app("select", h, sv.Ref), sv.Off, lo), elemIx(sv.Off, "1"), hi))
		return TupleV{}, true, false
	case "bufio.NewScanner":
		use("bufio.Scanner: a finite input is a finite sequence of lines; Scan consumes one line per successful call (ghost counter scanRemaining); the 64 KiB token limit ends the sequence early and is NOT part of this model (see the bounded clause)")
		n := st.freshConst("scanRemaining", SInt)
		st.assume(app("<=", "0", n))
		st.ghost["scanRemaining"] = Sc{n, SInt}
		key := fmt.Sprintf("scanner:%d", freshCounter)
		freshCounter++
		st.cells[key] = Sc{"gs.empty", SStr}
		return PtrV{Cell: key, IsNil: "false"}, true, false
	case "bufio.Scanner.Scan":
		rem := st.ghost["scanRemaining"].(Sc)
		okc := st.freshConst("scanok", SBool)
		st.assume(implies(okc, app(">", rem.T, "0")))
		st.ghost["scanRemaining"] = Sc{fmt.Sprintf("(ite %s (- %s 1) %s)", okc, rem.T, rem.T), SInt}
		if p, ok := args[0].(PtrV); ok {
			st.cells[p.Cell] = Sc{st.freshConst("line", SStr), SStr}
		}
		return Sc{okc, SBool}, true, false
	case "bufio.Scanner.Buffer":
		return TupleV{}, true, false
	case "bufio.Scanner.Text":
		p, ok := args[0].(PtrV)
		if !ok {
			fc.abort("Scanner.Text on %T", args[0])
		}
		return st.cells[p.Cell], true, false
	case "encoding/xml.NewDecoder":
		use("encoding/xml.Decoder: a finite input yields finitely many tokens (ghost counter xmlRemaining); Token returns a token (consuming one), io.EOF, or an error; once it has returned a non-EOF error every later call returns an error again (sticky)")
		n := st.freshConst("xmlRemaining", SInt)
		st.assume(app("<=", "0", n))
		st.ghost["xmlRemaining"] = Sc{n, SInt}
		st.ghost["xmlFailed"] = Sc{"false", SBool}
		key := fmt.Sprintf("xmldecoder:%d", freshCounter)
		freshCounter++
		st.cells[key] = Sc{"0", SInt}
		return PtrV{Cell: key, IsNil: "false"}, true, false
	case "encoding/xml.Decoder.Token":
		rem := st.ghost["xmlRemaining"].(Sc)
		failed := st.ghost["xmlFailed"].(Sc)
		errNil := st.freshConst("tokErrNil", SBool)
		isEOF := st.freshConst("tokEOF", SBool)
		tag := st.freshConst("tokErrTag", SInt)
		st.assume(implies(failed.T, and(not(errNil), not(isEOF))))
		st.assume(implies(errNil, and(app(">", rem.T, "0"), not(isEOF))))
		st.assume(app("=", app("gs.eq", app("err.msg", tag), fc.e.literal("EOF")), isEOF))
		st.ghost["xmlRemaining"] = Sc{fmt.Sprintf("(ite %s (- %s 1) %s)", errNil, rem.T, rem.T), SInt}
		st.ghost["xmlFailed"] = Sc{or(failed.T, and(not(errNil), not(isEOF))), SBool}
		return TupleV{IfaceV{Nil: st.freshConst("tokNil", SBool), Tag: "0"}, IfaceV{Nil: errNil, Tag: tag}}, true, false
	case "encoding/xml.Decoder.DecodeElement":
		rem := st.ghost["xmlRemaining"].(Sc)
		failed := st.ghost["xmlFailed"].(Sc)
		nrem := st.freshConst("xmlRemaining", SInt)
		st.assume(and(app("<=", "0", nrem), app("<=", nrem, rem.T)))
		errNil := st.freshConst("decErrNil", SBool)
		st.assume(implies(failed.T, not(errNil)))
		st.ghost["xmlRemaining"] = Sc{nrem, SInt}
		st.ghost["xmlFailed"] = Sc{or(failed.T, not(errNil)), SBool}
		if p, ok := args[1].(PtrV); ok && !p.Heap {
			if old, ok := st.cells[p.Cell]; ok {
				st.cells[p.Cell] = fc.havocValue(st, old, "decoded")
			}
		}
		return IfaceV{Nil: errNil, Tag: st.freshConst("decErrTag", SInt)}, true, false
	case "errors.New", "fmt.Errorf":
		use(key + " returns a non-nil error")
		return IfaceV{Nil: "false", Tag: st.freshConst("errtag", SInt)}, true, false
	case "log.Fatal", "log.Fatalf", "os.Exit":
		fc.oblige(st, "no-panic", fc.site(ins.Pos(), "call"), "false", key+" is unreachable")
		return TupleV{}, true, true
	case "sync.WaitGroup.Add", "sync.WaitGroup.Done", "sync.WaitGroup.Wait":
		return fc.waitGroup(st, ins, key, args), true, false
	case "math/rand.Seed", "time.Now", "time.Time.UTC", "time.Time.UnixNano":
		if callee.Signature.Results().Len() == 0 {
			return TupleV{}, true, false
		}
		return fc.e.fresh(st, callee.Signature.Results().At(0).Type(), "t"), true, false
	}
	return nil, false, false
}

func (fc *funcCtx) nativeInvoke(st *State, ins ssa.Instruction, name string, recv Value, com *ssa.CallCommon) (Value, bool) {
	switch name {
	case "(error).Error":
		iv, _ := recv.(IfaceV)
		tag := iv.Tag
		if tag == "" {
			tag = "0"
		}
		// the message is a function of the error value
		return Sc{app("err.msg", tag), SStr}, true
	}
	return nil, false
}

// applyPure models a call through a function value loaded from a slice as an
// uninterpreted function of (id, args): user-supplied callbacks are assumed to
// be deterministic and side-effect free.
func (fc *funcCtx) applyPure(st *State, fid Sc, com *ssa.CallCommon) (Value, bool) {
	sig := com.Signature()
	if sig.Results().Len() != 1 {
		return nil, false
	}
	rs, ok := scalarSort(sig.Results().At(0).Type())
	if !ok {
		return nil, false
	}
	name := "apply"
	params := []CVar{{"f", "int"}}
	args := []string{fid.T}
	sortType := map[string]string{SInt: "int", SBool: "bool", SReal: "real", SStr: "string"}
	for i, a := range com.Args {
		v, ok := fc.val(st, a).(Sc)
		if !ok {
			return nil, false
		}
		name += "_" + v.S
		params = append(params, CVar{fmt.Sprintf("a%d", i), sortType[v.S]})
		args = append(args, v.T)
	}
	name += "_" + rs
	fc.e.mu.Lock()
	if _, ok := fc.e.cs.Specs[name]; !ok {
		fc.e.cs.Specs[name] = &SpecFunc{Name: name, Params: params, Result: sortType[rs]}
	}
	fc.e.used["callbacks passed in slices are deterministic, side-effect-free functions ("+name+")"] = true
	fc.e.mu.Unlock()
	return Sc{app(name, args...), rs}, true
}

// typeHasPointerLike: the type contains a pointer, channel, function or interface somewhere.
func typeHasPointerLike(t types.Type, seen map[types.Type]bool) bool {
	if seen[t] {
		return false
	}
	seen[t] = true
	switch u := t.Underlying().(type) {
	case *types.Basic:
		return u.Kind() == types.UnsafePointer
	case *types.Pointer, *types.Chan, *types.Signature, *types.Interface:
		return true
	case *types.Slice:
		return typeHasPointerLike(u.Elem(), seen)
	case *types.Array:
		return typeHasPointerLike(u.Elem(), seen)
	case *types.Map:
		return typeHasPointerLike(u.Key(), seen) || typeHasPointerLike(u.Elem(), seen)
	case *types.Struct:
		for i := 0; i < u.NumFields(); i++ {
			if typeHasPointerLike(u.Field(i).Type(), seen) {
				return true
			}
		}
		return false
	}
	return true
}

// rootedInOwnAlloc: the address is a local of the function or a field / array element of one
// (the elements of a composite literal are stored that way); an element of a slice value is not.
func rootedInOwnAlloc(a ssa.Value) bool {
	for {
		switch x := a.(type) {
		case *ssa.Alloc:
			return true
		case *ssa.FieldAddr:
			a = x.X
		case *ssa.IndexAddr:
			if _, isSlice := x.X.Type().Underlying().(*types.Slice); isSlice {
				return false
			}
			a = x.X
		default:
			return false
		}
	}
}

// throughScalarPtrParam: the address is the value of a parameter of type pointer-to-basic (read back
// from the parameter's own slot). Whether the argument really is the address of a caller's local is
// checked at the call site.
func throughScalarPtrParam(a ssa.Value) bool {
	ld, ok := a.(*ssa.UnOp)
	if !ok || ld.Op != token.MUL {
		return false
	}
	slot, ok := ld.X.(*ssa.Alloc)
	if !ok || slot.Referrers() == nil {
		return false
	}
	n := 0
	for _, r := range *slot.Referrers() {
		if st, ok := r.(*ssa.Store); ok && st.Addr == ssa.Value(slot) {
			n++
			p, isParam := st.Val.(*ssa.Parameter)
			if !isParam {
				return false
			}
			pt, isPtr := p.Type().Underlying().(*types.Pointer)
			if !isPtr {
				return false
			}
			if _, basic := pt.Elem().Underlying().(*types.Basic); !basic {
				return false
			}
		}
	}
	return n == 1
}
