package main

import (
	"fmt"
	"go/ast"
	"go/token"
	"go/types"
	"os"
	"path/filepath"
	"regexp"
	"sort"
	"strings"
	"sync"
	"time"

	"golang.org/x/tools/go/packages"
	"golang.org/x/tools/go/ssa"
	"golang.org/x/tools/go/ssa/ssautil"
)

type Query struct {
	Script string
	Path   string
	Res    SolveResult
	Inputs map[string]Value // entry values of the parameters (for model decoding)
	Expect string           // "unsat" (default) or "sat" (vacuity / reachability covers)
}

type Obligation struct {
	Name    string
	Kind    string
	Func    string
	Desc    string
	Queries []*Query
	Status  string // discharged | failed | undecided | error
	Solver  string
	Secs    float64
	Note    string
}

type Engine struct {
	drifted            map[string]string // function -> why its contract no longer fits its shape (undischarged obligations are then undecided, not violations)
	repo               string
	fset               *token.FileSet
	prog               *ssa.Program
	ppkgs              map[string]*packages.Package
	spkgs              map[string]*ssa.Package
	cs                 *ContractSet
	lits               map[string]string
	litDefs            map[string][]string
	obls               map[string]*Obligation
	oblOrd             []string
	workdir            string
	notes              map[string]bool // unmodelled constructs met (reported as assumptions)
	used               map[string]bool // trusted contracts / axioms relied upon
	srcs               map[string][]byte
	tables             map[string]*tableDef
	errors             []string
	mu                 sync.Mutex
	funcsUnderContract map[string]bool
	constGlobals       map[*ssa.Global]bool
	knownOpen          map[string]bool // obligations listed as known findings: not worth the second solver round
}

func NewEngine(repo, workdir string) *Engine {
	return &Engine{repo: repo, workdir: workdir, ppkgs: map[string]*packages.Package{}, spkgs: map[string]*ssa.Package{},
		lits: map[string]string{}, litDefs: map[string][]string{}, obls: map[string]*Obligation{}, notes: map[string]bool{},
		used: map[string]bool{}, srcs: map[string][]byte{}, tables: map[string]*tableDef{}, funcsUnderContract: map[string]bool{}}
}

const modPath = "github.com/TimothyStiles/poly"

// Load type-checks the requested packages of /repo's working tree (tag verif)
// and builds naive-form SSA with debug info.
func (e *Engine) Load(patterns ...string) error {
	cfg := &packages.Config{Mode: packages.LoadAllSyntax, Dir: e.repo, BuildFlags: []string{"-tags=verif"},
		Env: append(os.Environ(), "GOFLAGS=-mod=mod", "GOPROXY=off", "GOSUMDB=off", "GOTOOLCHAIN=local")}
	pkgs, err := packages.Load(cfg, patterns...)
	if err != nil {
		return err
	}
	var errs []string
	packages.Visit(pkgs, nil, func(p *packages.Package) {
		for _, er := range p.Errors {
			errs = append(errs, er.Error())
		}
	})
	if len(errs) > 0 {
		return fmt.Errorf("load errors: %s", strings.Join(errs, "; "))
	}
	prog, _ := ssautil.AllPackages(pkgs, ssa.NaiveForm|ssa.GlobalDebug)
	prog.Build()
	e.prog = prog
	e.fset = prog.Fset
	packages.Visit(pkgs, nil, func(p *packages.Package) {
		e.ppkgs[p.PkgPath] = p
		if sp := prog.Package(p.Types); sp != nil {
			e.spkgs[p.PkgPath] = sp
		}
	})
	return nil
}

// LoadContracts reads every verif_contracts.go under the loaded repo packages
// plus the assumed stdlib contracts.
func (e *Engine) LoadContracts(stdlibDir string) error {
	e.cs = NewContractSet()
	specs, _ := filepath.Glob(filepath.Join(stdlibDir, "*.spec"))
	sort.Strings(specs)
	for _, f := range specs {
		if err := e.cs.LoadContractFile(f, "", true); err != nil {
			return err
		}
	}
	var paths []string
	for p := range e.ppkgs {
		if strings.HasPrefix(p, modPath) {
			paths = append(paths, p)
		}
	}
	sort.Strings(paths)
	for _, p := range paths {
		rel := strings.TrimPrefix(strings.TrimPrefix(p, modPath), "/")
		f := filepath.Join(e.repo, rel, "verif_contracts.go")
		if _, err := os.Stat(f); err == nil {
			if err := e.cs.LoadContractFile(f, p, false); err != nil {
				return err
			}
		}
	}
	return e.registerOpaque()
}

func (e *Engine) source(file string) []byte {
	if b, ok := e.srcs[file]; ok {
		return b
	}
	b, _ := os.ReadFile(file)
	e.srcs[file] = b
	return b
}

// lookupFunc resolves "pkgpath.Name" or "pkgpath.Recv.Name" (also closures "pkgpath.Outer$1").
func (e *Engine) lookupFunc(key string) *ssa.Function {
	// longest package path prefix
	best := ""
	for p := range e.spkgs {
		if strings.HasPrefix(key, p+".") && len(p) > len(best) {
			best = p
		}
	}
	if best == "" {
		return nil
	}
	sp := e.spkgs[best]
	rest := key[len(best)+1:]
	if i := strings.Index(rest, "$"); i >= 0 {
		outer := e.lookupFunc(best + "." + rest[:i])
		if outer == nil {
			return nil
		}
		for _, af := range outer.AnonFuncs {
			if af.Name() == rest || strings.HasSuffix(af.Name(), rest[strings.LastIndex(rest, ".")+1:]) {
				return af
			}
		}
		return nil
	}
	if i := strings.Index(rest, "."); i >= 0 {
		recv, name := rest[:i], rest[i+1:]
		recv = strings.TrimPrefix(recv, "*")
		t := sp.Type(recv)
		if t == nil {
			return nil
		}
		if m := e.prog.LookupMethod(t.Type(), sp.Pkg, name); m != nil {
			return m
		}
		return e.prog.LookupMethod(types.NewPointer(t.Type()), sp.Pkg, name)
	}
	return sp.Func(rest)
}

// funcKey is the contract key of an ssa function.
func funcKey(fn *ssa.Function) string {
	if fn == nil {
		return ""
	}
	if fn.Parent() != nil {
		return funcKey(fn.Parent()) + "$" + strings.TrimPrefix(fn.Name(), fn.Parent().Name()+"$")
	}
	pkg := ""
	if fn.Pkg != nil {
		pkg = fn.Pkg.Pkg.Path()
	} else if fn.Object() != nil && fn.Object().Pkg() != nil {
		pkg = fn.Object().Pkg().Path()
	}
	if recv := fn.Signature.Recv(); recv != nil {
		t := recv.Type()
		if p, ok := t.(*types.Pointer); ok {
			t = p.Elem()
		}
		if n, ok := t.(*types.Named); ok {
			return pkg + "." + n.Obj().Name() + "." + fn.Name()
		}
	}
	return pkg + "." + fn.Name()
}

func shortKey(key string) string {
	if strings.HasPrefix(key, modPath+".") {
		return "poly." + strings.TrimPrefix(key, modPath+".")
	}
	return strings.TrimPrefix(key, modPath+"/")
}

// ---- obligations ----

func (e *Engine) addQuery(name, kind, fn, desc string, q *Query) {
	e.mu.Lock()
	defer e.mu.Unlock()
	o := e.obls[name]
	if o == nil {
		o = &Obligation{Name: name, Kind: kind, Func: fn, Desc: desc}
		e.obls[name] = o
		e.oblOrd = append(e.oblOrd, name)
	}
	o.Queries = append(o.Queries, q)
}

func (e *Engine) failObligation(name, kind, fn, desc, note string) {
	e.mu.Lock()
	defer e.mu.Unlock()
	o := e.obls[name]
	if o == nil {
		o = &Obligation{Name: name, Kind: kind, Func: fn, Desc: desc}
		e.obls[name] = o
		e.oblOrd = append(e.oblOrd, name)
	}
	o.Status = "failed"
	o.Note = note
}

var identRe = regexp.MustCompile(`[A-Za-z_][A-Za-z0-9_.!$]*`)

// buildScript assembles a self-contained SMT-LIB script: prelude, the
// literals and spec functions the query mentions (transitively), the path's
// declarations and facts, and the negated goal.
func (e *Engine) buildScript(decls, facts []string, goal string, negate bool) string {
	body := strings.Join(decls, "\n") + "\n" + strings.Join(facts, "\n") + "\n" + goal
	needLits := map[string]bool{}
	needSpecs := map[string]bool{}
	var specOrder []string
	var scan func(text string)
	scan = func(text string) {
		for _, id := range identRe.FindAllString(text, -1) {
			if strings.HasPrefix(id, "lit_") {
				needLits[id] = true
				continue
			}
			if _, ok := e.cs.Specs[id]; ok && !needSpecs[id] {
				needSpecs[id] = true
				d := e.specSMT(id)
				scan(d)
				specOrder = append(specOrder, id)
			}
		}
	}
	scan(body)
	// global axioms (assumptions of the contract library) are included when every spec
	// function they mention is already part of the query
	var globalAx []string
	for _, ax := range e.cs.Axioms {
		t := e.cevalBool(ax.E, &Env{vars: map[string]Value{}, bound: map[string]string{}})
		ok := true
		for _, id := range identRe.FindAllString(t, -1) {
			if _, isSpec := e.cs.Specs[id]; isSpec && !needSpecs[id] {
				ok = false
			}
		}
		if ok {
			scan(t)
			globalAx = append(globalAx, "(assert "+t+")\n")
		}
	}
	var b strings.Builder
	needStr := false
	var ls []string
	for l := range needLits {
		ls = append(ls, l)
	}
	sort.Strings(ls)
	for _, l := range ls {
		for _, d := range e.litDefs[l] {
			b.WriteString(d + "\n")
		}
	}
	var specText strings.Builder
	// declarations first, then definitions/axioms (axioms may mention any spec function)
	for _, id := range specOrder {
		specText.WriteString(e.specDeclSMT(id))
	}
	for _, id := range specOrder {
		specText.WriteString(e.specAxiomsSMT(id))
	}
	for _, ax := range globalAx {
		specText.WriteString(ax)
	}
	if len(needLits) > 0 || strings.Contains(body, "gs.") || strings.Contains(body, " Str") || strings.Contains(specText.String(), "gs.") || strings.Contains(specText.String(), " Str") {
		needStr = true
	}
	var hdr strings.Builder
	if needStr {
		hdr.WriteString(preludeStr)
	}
	if strings.Contains(body, "gs.ix") || strings.Contains(specText.String(), "gs.ix") || strings.Contains(b.String(), "gs.ix") {
		hdr.WriteString(preludeIx)
	}
	hdr.WriteString(preludeArith)
	for _, o := range e.cs.Opaque {
		all := body + specText.String()
		if strings.Contains(all, " "+o.Sort+")") || strings.Contains(all, "("+o.Sort+".") || strings.Contains(all, " "+o.Sort+" ") {
			hdr.WriteString("(declare-sort " + o.Sort + " 0)\n")
		}
	}
	for _, o := range e.cs.Opaque {
		all := body + specText.String()
		if strings.Contains(all, " "+o.Sort+")") || strings.Contains(all, "("+o.Sort+".") || strings.Contains(all, " "+o.Sort+" ") {
			if ot := opaqueSort(o.Sort); ot != nil {
				hdr.WriteString(opaqueDecls(ot))
			}
		}
	}
	full := hdr.String() + b.String() + specText.String()
	b.Reset()
	b.WriteString(full)
	for _, d := range decls {
		b.WriteString(d + "\n")
	}
	for _, f := range facts {
		b.WriteString("(assert " + f + ")\n")
	}
	if negate {
		b.WriteString("(assert (not " + goal + "))\n")
	} else if goal != "" && goal != "true" {
		b.WriteString("(assert " + goal + ")\n")
	}
	return b.String()
}

// literal registers a string literal and returns its constant name.
func (e *Engine) literal(s string) string {
	e.mu.Lock()
	defer e.mu.Unlock()
	if n, ok := e.lits[s]; ok {
		return n
	}
	if s == "" {
		e.lits[s] = "gs.empty"
		return "gs.empty"
	}
	n := fmt.Sprintf("lit_%d", len(e.lits))
	e.lits[s] = n
	defs := []string{fmt.Sprintf("(declare-const %s Str) ; %q", n, truncate(s, 40)), fmt.Sprintf("(assert (= (gs.len %s) %d))", n, len(s))}
	var parts []string
	for i := 0; i < len(s); i++ {
		parts = append(parts, fmt.Sprintf("(= (gs.at %s %d) %d)", n, i, s[i]))
	}
	defs = append(defs, "(assert "+and(parts...)+")")
	e.litDefs[n] = defs
	return n
}

func truncate(s string, n int) string {
	if len(s) > n {
		return s[:n] + "..."
	}
	return s
}

// Solve discharges all collected obligations with a worker pool.
func (e *Engine) Solve(secs int, workers int) {
	type job struct {
		o *Obligation
		q *Query
	}
	var jobs []job
	for _, n := range e.oblOrd {
		o := e.obls[n]
		for _, q := range o.Queries {
			jobs = append(jobs, job{o, q})
		}
	}
	ch := make(chan job)
	var wg sync.WaitGroup
	for i := 0; i < workers; i++ {
		wg.Add(1)
		go func() {
			defer wg.Done()
			for j := range ch {
				qsecs := secs
				if j.q.Expect == "sat" && qsecs > 3 {
					qsecs = 3 // covers only look for a quick contradiction
				} else if qsecs > 8 {
					qsecs = 8 // first round is short; goals that need longer get the seeded second round at full length
				}
				r := raceSolvers(e.workdir, j.o.Name, j.q.Script, qsecs, j.q.Expect != "sat")
				want := "unsat"
				if j.q.Expect == "sat" {
					want = "sat"
				}
				if r.Status != want && (r.Status == "timeout" || r.Status == "unknown") && j.q.Expect != "sat" && !e.knownOpen[j.o.Name] {
					// second round: more random seeds, raced
					r2 := raceWith(moreSolvers, e.workdir, j.o.Name+"_retry", j.q.Script, secs, true)
					if r2.Status == "unsat" || r2.Status == "sat" {
						r = r2
					}
				}
				j.q.Res = r
			}
		}()
	}
	for _, j := range jobs {
		ch <- j
	}
	close(ch)
	wg.Wait()
	for _, n := range e.oblOrd {
		o := e.obls[n]
		if o.Status == "failed" {
			continue
		}
		o.Status = "discharged"
		for _, q := range o.Queries {
			o.Secs += q.Res.Secs
			if q.Expect == "sat" {
				// cover: anything but unsat is fine (unsat = contradictory assumptions)
				if q.Res.Status == "unsat" {
					o.Status = "failed"
					o.Note = "vacuous: assumptions are contradictory (" + q.Path + ")"
				}
				if o.Solver == "" {
					o.Solver = q.Res.Solver
				}
				continue
			}
			switch q.Res.Status {
			case "unsat":
				if o.Solver == "" || !strings.Contains(o.Solver, q.Res.Solver) {
					if o.Solver != "" {
						o.Solver += ","
					}
					o.Solver += q.Res.Solver
				}
			case "sat":
				o.Status = "failed"
				o.Note = "counterexample on path " + q.Path
			case "error":
				if o.Status != "failed" {
					o.Status = "error"
					o.Note = "solver error: " + firstLine(q.Res.Output) + " (" + q.Path + ")"
				}
			default:
				if o.Status == "discharged" {
					o.Status = "undecided"
					o.Note = q.Res.Status + " on path " + q.Path
				}
			}
		}
	}
}

// ---- per function context ----

type funcCtx struct {
	e       *Engine
	fn      *ssa.Function
	key     string
	con     *FuncContract
	loops   map[*ssa.BasicBlock]*Loop
	loopLst []*Loop
	file    *ast.File
	src     []byte
	paths   int
	siteOrd map[string][]token.Pos
	params  []string
	results []string
	declOrd map[*ssa.Alloc]int
	maxPath int
	covered map[*ssa.BasicBlock]bool
	ipdom   map[*ssa.BasicBlock]*ssa.BasicBlock
	rename  map[string]string // contract name of a local -> its current name (pure renames are followed)
	// inlining of a loop-free module function that has no contract of its own
	inlineDepth int
	collector   *[]inlineRet
	ownSlices   map[*ssa.Alloc]bool // local slice variables that only ever hold storage made by this call
	ownSlicesOK bool
}

type inlineRet struct {
	st  *State
	res []Value
}

func (fc *funcCtx) name(kind, site string) string {
	n := shortKey(fc.key) + "/" + kind
	if site != "" {
		n += "/" + site
	}
	return n
}

// oblige records `facts |- goal` for the current path.
func (fc *funcCtx) oblige(st *State, kind, site, goal, desc string) {
	if goal == "true" {
		// still count it: trivially true obligations are discharged syntactically
	}
	script := fc.e.buildScript(st.decls, st.facts, goal, true)
	if os.Getenv("GOVC_DEBUG") != "" {
		fmt.Fprintf(os.Stderr, "oblige %s/%s facts=%d script=%d path=%s\n", kind, site, len(st.facts), len(script), strings.Join(st.trace, ">"))
	}
	fc.e.addQuery(fc.name(kind, site), kind, shortKey(fc.key), desc, &Query{Script: script, Path: strings.Join(st.trace, ">"), Inputs: st.entryVals})
}

func (fc *funcCtx) cover(st *State, site string) {
	script := fc.e.buildScript(st.decls, st.facts, "true", false)
	fc.e.addQuery(fc.name("cover", site), "cover", shortKey(fc.key), "reachability / non-vacuity", &Query{Script: script, Path: strings.Join(st.trace, ">"), Expect: "sat"})
}

type engineAbort struct{ msg string }

func (fc *funcCtx) abort(f string, a ...interface{}) {
	panic(engineAbort{fmt.Sprintf(f, a...)})
}

// VerifyFunc generates every obligation of one function under contract.
func (e *Engine) VerifyFunc(key string) {
	con := e.cs.Funcs[key]
	if con == nil {
		e.failObligation(shortKey(key)+"/attach", "attach", shortKey(key), "contract present", "no contract for "+key)
		return
	}
	fn := e.lookupFunc(key)
	if fn == nil || len(fn.Blocks) == 0 {
		e.failObligation(shortKey(key)+"/attach", "attach", shortKey(key), "function exists", "function "+key+" not found in /repo (contract drift)")
		return
	}
	e.funcsUnderContract[shortKey(key)] = true
	activateOpaque(con.Notes)
	defer activateOpaque(nil)
	pos := e.fset.Position(fn.Pos())
	src := e.source(pos.Filename)
	fc := &funcCtx{e: e, fn: fn, key: key, con: con, loops: map[*ssa.BasicBlock]*Loop{}, src: src, maxPath: 3000, siteOrd: map[string][]token.Pos{}, covered: map[*ssa.BasicBlock]bool{}}
	fc.loopLst = findLoops(fn, e.fset, src)
	for _, l := range fc.loopLst {
		fc.loops[l.Head] = l
	}
	fc.indexSites()
	fc.ipdom = ipdoms(fn)
	fc.rename = map[string]string{}
	if curT := namedLocalsTyped(fn); len(con.Locals) > 0 {
		// names that disappeared are matched with names that appeared: first by type when the type
		// singles one out, then in declaration order; names that are still there keep their meaning
		// wherever their declaration has moved
		split := func(tok string) (string, string) {
			if k := strings.Index(tok, ":"); k >= 0 {
				return tok[:k], tok[k+1:]
			}
			return tok, ""
		}
		type nt struct{ name, typ string }
		var olds, news []nt
		oldN, newN := map[string]int{}, map[string]int{}
		for _, tok := range con.Locals {
			n, t := split(tok)
			olds = append(olds, nt{n, t})
			oldN[n]++
		}
		for _, tok := range curT {
			n, t := split(tok)
			news = append(news, nt{n, t})
			newN[n]++
		}
		var gone, fresh []nt
		for _, o := range olds {
			if newN[o.name] > 0 {
				newN[o.name]--
			} else {
				gone = append(gone, o)
			}
		}
		for _, n := range news {
			if oldN[n.name] > 0 {
				oldN[n.name]--
			} else {
				fresh = append(fresh, n)
			}
		}
		// candidate 1: declarations kept their places, a changed name stands where its old name stood
		posMap, posScore, posOK := map[string]string{}, 0, len(olds) == len(news)
		if posOK {
			keptOld, keptNew := map[string]int{}, map[string]int{}
			for _, o := range olds {
				keptOld[o.name]++
			}
			for _, n := range news {
				keptNew[n.name]++
			}
			for i := range olds {
				if olds[i].name == news[i].name {
					continue
				}
				if keptNew[olds[i].name] >= keptOld[olds[i].name] || keptOld[news[i].name] >= keptNew[news[i].name] {
					posOK = false
					break
				}
				if _, dup := posMap[olds[i].name]; !dup {
					posMap[olds[i].name] = news[i].name
				}
				if olds[i].typ != "" && olds[i].typ == news[i].typ {
					posScore++
				}
			}
		}
		// candidate 2: names that disappeared matched with names that appeared, by type first, then in order
		typMap, typScore, typOK := map[string]string{}, 0, len(gone) == len(fresh)
		if typOK {
			used := make([]bool, len(fresh))
			matched := make([]bool, len(gone))
			for gi, g := range gone {
				for k, f := range fresh {
					if !used[k] && g.typ != "" && g.typ == f.typ {
						used[k] = true
						matched[gi] = true
						typScore++
						if _, dup := typMap[g.name]; !dup {
							typMap[g.name] = f.name
						}
						break
					}
				}
			}
			k := 0
			for gi, g := range gone {
				if matched[gi] {
					continue
				}
				for k < len(fresh) && used[k] {
					k++
				}
				if k < len(fresh) {
					used[k] = true
					if _, dup := typMap[g.name]; !dup {
						typMap[g.name] = fresh[k].name
					}
				}
			}
		}
		switch {
		case posOK && (!typOK || posScore >= typScore):
			fc.rename = posMap
		case typOK:
			fc.rename = typMap
		}
		if len(fc.rename) > 0 {
			e.note(fmt.Sprintf("%s: local variables renamed since the contract was written %v; the contract is read with the new names", shortKey(key), fc.rename))
		}
	}
	// attach checks
	if len(con.Params) != len(fn.Params) {
		e.failObligation(fc.name("attach", "params"), "attach", shortKey(key), "contract parameter list matches", fmt.Sprintf("contract names %d parameters, function has %d", len(con.Params), len(fn.Params)))
		return
	}
	nres := fn.Signature.Results().Len()
	if len(con.Results) != nres {
		e.failObligation(fc.name("attach", "results"), "attach", shortKey(key), "contract result list matches", fmt.Sprintf("contract names %d results, function has %d", len(con.Results), nres))
		return
	}
	fc.renumberLoops(con, shortKey(key))
	for n, ls := range con.Loops {
		if n > len(fc.loopLst) {
			// a loop clause without a loop is unused text: the postconditions are still proved from what the
			// function does now (for instance a loop replaced by a library call that has a contract)
			why := fmt.Sprintf("contract has a clause for loop %d, function has %d loops", n, len(fc.loopLst))
			e.note(fmt.Sprintf("%s: %s; the clause is unused", shortKey(key), why))
			e.mu.Lock()
			if e.drifted == nil {
				e.drifted = map[string]string{}
			}
			e.drifted[shortKey(key)] = why
			e.mu.Unlock()
			continue
		}
		if n < 1 {
			e.failObligation(fc.name("attach", fmt.Sprintf("loop%d", n)), "attach", shortKey(key), "loop exists", fmt.Sprintf("contract refers to loop %d, function has %d loops", n, len(fc.loopLst)))
			return
		}
		if ls.Fingerprint != "" && !strings.HasPrefix(fc.loopLst[n-1].Header, ls.Fingerprint) && !strings.HasPrefix(fc.loopLst[n-1].Header, renameIdents(ls.Fingerprint, fc.rename)) {
			// the header text is only a drift detector: the invariants are checked against whatever loop
			// they land on, so a reworded header is not a failure by itself
			e.note(fmt.Sprintf("%s: loop %d header is %q, contract was written for %q (invariants are checked against the loop as it is)", shortKey(key), n, fc.loopLst[n-1].Header, ls.Fingerprint))
		}
	}
	for _, l := range fc.loopLst {
		if con.Loops[l.Ordinal] == nil {
			e.failObligation(fc.name("attach", fmt.Sprintf("loop%d", l.Ordinal)), "attach", shortKey(key), "every loop has an invariant", fmt.Sprintf("loop %d (%q) has no invariant in the contract", l.Ordinal, l.Header))
			return
		}
	}
	defer func() {
		if r := recover(); r != nil {
			if ab, ok := r.(engineAbort); ok {
				e.failObligation(fc.name("engine", ""), "engine", shortKey(key), "function is inside the supported subset", ab.msg)
				return
			}
			panic(r)
		}
	}()
	st := &State{cells: map[interface{}]Value{}, named: map[string]interface{}{}, regs: map[ssa.Value]Value{}, heaps: map[string]string{},
		maps: map[string]*mapState{}, chans: map[string]*chanState{}, ghost: map[string]Value{}, entryVals: map[string]Value{}}
	st.entryBase = st.freshConst("allocbase", SInt)
	st.assume(app("<", "0", st.entryBase))
	st.allocBase = st.entryBase
	for i, p := range fn.Params {
		v := e.fresh(st, p.Type(), con.Params[i])
		st.regs[p] = v
		st.entryVals[con.Params[i]] = v
	}
	for _, fv := range fn.FreeVars {
		// captured variable: pointer to a cell of the enclosing function
		key := "freevar:" + fv.Name()
		st.cells[key] = e.fresh(st, deref(fv.Type()), fv.Name())
		st.regs[fv] = PtrV{Cell: key, IsNil: "false"}
		st.named[fv.Name()] = key
		st.entryVals[fv.Name()] = st.cells[key]
	}
	for _, p := range fn.Params {
		if pt, ok := p.Type().Underlying().(*types.Pointer); ok && isWaitGroup(pt.Elem()) {
			w := st.freshConst("wg", SInt)
			st.assume(app("<=", "0", w))
			st.ghost["wg"] = Sc{w, SInt}
		}
	}
	st.oldHeaps = map[string]string{}
	// materialise heaps mentioned lazily: entry heap symbols are created on first use
	env := fc.entryEnv(st)
	for i, r := range con.Requires {
		v := e.cevalBool(r.E, env)
		st.assume(v)
		_ = i
	}
	fc.cover(st, "requires")
	fc.run(fn.Blocks[0], st)
	// every block that carries code must have been reached by some path (else the
	// path cap or an unsupported construct silently dropped it)
}

func deref(t types.Type) types.Type {
	if p, ok := t.Underlying().(*types.Pointer); ok {
		return p.Elem()
	}
	return t
}

// indexSites records, per source text, the positions of index/slice/call
// expressions so that obligation names are stable without line numbers.
func (fc *funcCtx) indexSites() {
	syn := fc.fn.Syntax()
	if syn == nil {
		return
	}
	ast.Inspect(syn, func(n ast.Node) bool {
		switch x := n.(type) {
		case *ast.IndexExpr, *ast.SliceExpr, *ast.CallExpr, *ast.BinaryExpr, *ast.TypeAssertExpr, *ast.StarExpr, *ast.SendStmt, *ast.SelectorExpr:
			t := fc.text(x.Pos(), x.End())
			fc.siteOrd[t] = append(fc.siteOrd[t], x.Pos())
		}
		return true
	})
	for _, ps := range fc.siteOrd {
		sort.Slice(ps, func(i, j int) bool { return ps[i] < ps[j] })
	}
}

func (fc *funcCtx) text(from, to token.Pos) string {
	a, b := fc.e.fset.Position(from).Offset, fc.e.fset.Position(to).Offset
	if a < 0 || b > len(fc.src) || a >= b {
		return ""
	}
	return strings.Join(strings.Fields(string(fc.src[a:b])), "")
}

// site names the innermost expression of one of the wanted kinds that starts at or encloses pos.
func (fc *funcCtx) site(pos token.Pos, want string) string {
	syn := fc.fn.Syntax()
	if syn == nil || !pos.IsValid() {
		return "?"
	}
	var best, encl ast.Node
	ast.Inspect(syn, func(n ast.Node) bool {
		if n == nil {
			return false
		}
		var anchor token.Pos
		ok := false
		switch x := n.(type) {
		case *ast.IndexExpr:
			ok, anchor = want == "index", x.Lbrack
		case *ast.SliceExpr:
			ok, anchor = want == "slice", x.Lbrack
		case *ast.CallExpr:
			ok, anchor = want == "call", x.Lparen
		case *ast.BinaryExpr:
			ok, anchor = want == "binary", x.OpPos
		case *ast.TypeAssertExpr:
			ok, anchor = want == "assert", x.Lparen
		case *ast.SendStmt:
			ok, anchor = want == "send", x.Arrow
		}
		if ok && anchor == pos {
			best = n
		}
		if ok && n.Pos() <= pos && pos < n.End() {
			encl = n
		}
		return true
	})
	if best == nil {
		best = encl
	}
	if best == nil {
		return "?"
	}
	t := fc.text(best.Pos(), best.End())
	if len(t) > 70 {
		t = t[:70]
	}
	ord := 1
	for i, p := range fc.siteOrd[fc.text(best.Pos(), best.End())] {
		if p == best.Pos() {
			ord = i + 1
		}
	}
	if len(fc.siteOrd[fc.text(best.Pos(), best.End())]) > 1 {
		return fmt.Sprintf("%s#%d", t, ord)
	}
	return t
}

var startTime = time.Now()

// namedLocals lists the source-level variables of fn (parameters, results, locals) in
// the order their cells are created, without compiler temporaries.
// namedLocalsTyped: like namedLocals, each name followed by ':' and its type (no blanks).
func namedLocalsTyped(fn *ssa.Function) []string {
	var out []string
	for _, b := range fn.Blocks {
		for _, ins := range b.Instrs {
			al, ok := ins.(*ssa.Alloc)
			if !ok || !isNamedLocal(al) {
				continue
			}
			t := types.TypeString(deref(al.Type()), func(p *types.Package) string { return p.Name() })
			out = append(out, al.Comment+":"+strings.ReplaceAll(t, " ", ""))
		}
	}
	return out
}

func isNamedLocal(al *ssa.Alloc) bool {
	if al.Comment == "" {
		return false
	}
	switch al.Comment {
	case "rangeindex", "complit", "varargs", "slicelit", "defer$stack", "makeslice", "new", "typeassert,ok":
		return false
	}
	return !strings.HasPrefix(al.Comment, "defer$")
}

func namedLocals(fn *ssa.Function) []string {
	var out []string
	for _, b := range fn.Blocks {
		for _, ins := range b.Instrs {
			al, ok := ins.(*ssa.Alloc)
			if !ok || al.Comment == "" {
				continue
			}
			switch al.Comment {
			case "rangeindex", "complit", "varargs", "slicelit", "defer$stack", "makeslice", "new", "typeassert,ok":
				continue
			}
			if strings.HasPrefix(al.Comment, "defer$") {
				continue
			}
			out = append(out, al.Comment)
		}
	}
	return out
}

var identTokRe = regexp.MustCompile(`[A-Za-z_][A-Za-z0-9_]*`)

func renameIdents(s string, m map[string]string) string {
	if len(m) == 0 {
		return s
	}
	return identTokRe.ReplaceAllStringFunc(s, func(t string) string {
		if n, ok := m[t]; ok {
			return n
		}
		return t
	})
}

// renumberLoops: loop clauses are keyed by the ordinal the loop had when the contract was written and
// carry that loop's header text. When the loops of the function have been reordered (a block moved up
// or down), the ordinals no longer fit but the headers still do: if every clause's header text picks
// exactly one loop and every loop is picked once, the loops take the clause's numbers. Anything less
// clear-cut leaves the numbering alone (the invariants are then checked against the loops they land on).
func (fc *funcCtx) renumberLoops(con *FuncContract, who string) {
	if len(con.Loops) != len(fc.loopLst) || len(fc.loopLst) < 2 {
		return
	}
	fits := func(ls *LoopSpec, l *Loop) bool {
		return ls.Fingerprint != "" && (strings.HasPrefix(l.Header, ls.Fingerprint) || strings.HasPrefix(l.Header, renameIdents(ls.Fingerprint, fc.rename)))
	}
	identity := true
	for n, ls := range con.Loops {
		if n < 1 || n > len(fc.loopLst) {
			return
		}
		if !fits(ls, fc.loopLst[n-1]) {
			identity = false
		}
	}
	if identity {
		return
	}
	assign := map[*Loop]int{}
	for n, ls := range con.Loops {
		var hit *Loop
		for _, l := range fc.loopLst {
			if fits(ls, l) {
				if hit != nil {
					return // ambiguous
				}
				hit = l
			}
		}
		if hit == nil {
			return
		}
		if _, dup := assign[hit]; dup {
			return
		}
		assign[hit] = n
	}
	var moved []string
	for _, l := range fc.loopLst {
		if assign[l] != l.Ordinal {
			moved = append(moved, fmt.Sprintf("%d->%d", l.Ordinal, assign[l]))
		}
		l.Ordinal = assign[l]
	}
	sort.Slice(fc.loopLst, func(i, j int) bool { return fc.loopLst[i].Ordinal < fc.loopLst[j].Ordinal })
	fc.e.note(fmt.Sprintf("%s: loops were reordered since the contract was written; matched by header text (position->clause %v)", who, moved))
}
