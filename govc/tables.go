package main

// Finite tables read out of the code's own literals (package-level map
// literals, map literals inside functions, struct literals) on every run.

import (
	"fmt"
	"go/constant"
	"go/types"
	"strings"

	"golang.org/x/tools/go/ssa"
)

type tableVal struct {
	Const  *ssa.Const
	Fields []*tableVal // struct literal
	Elems  []*tableVal // slice/array literal
	Call   string      // callee name for call-valued entries
	Args   []*tableVal
}

type tableEntry struct {
	Key *ssa.Const
	Val *tableVal
}

type tableDef struct {
	Name    string
	Entries []tableEntry
	KT, VT  types.Type
	Problem string // why the literal could not be read completely
}

// miniEval resolves an SSA value built from literals inside one function.
func miniEval(v ssa.Value, fn *ssa.Function, depth int) *tableVal {
	if depth > 8 {
		return nil
	}
	switch x := v.(type) {
	case *ssa.Const:
		return &tableVal{Const: x}
	case *ssa.UnOp: // load of a complit alloc
		if al, ok := x.X.(*ssa.Alloc); ok {
			return evalAlloc(al, fn, depth+1)
		}
	case *ssa.Slice:
		if al, ok := x.X.(*ssa.Alloc); ok {
			return evalAlloc(al, fn, depth+1)
		}
	case *ssa.Call:
		if callee := x.Call.StaticCallee(); callee != nil {
			tv := &tableVal{Call: funcKey(callee)}
			for _, a := range x.Call.Args {
				tv.Args = append(tv.Args, miniEval(a, fn, depth+1))
			}
			return tv
		}
	case *ssa.ChangeType:
		return miniEval(x.X, fn, depth+1)
	case *ssa.Convert:
		return miniEval(x.X, fn, depth+1)
	case *ssa.MakeInterface:
		return miniEval(x.X, fn, depth+1)
	}
	return nil
}

// evalAlloc reconstructs a composite literal stored field by field / element by element.
func evalAlloc(al *ssa.Alloc, fn *ssa.Function, depth int) *tableVal {
	t := deref(al.Type())
	tv := &tableVal{}
	switch u := t.Underlying().(type) {
	case *types.Struct:
		tv.Fields = make([]*tableVal, u.NumFields())
	case *types.Array:
		tv.Elems = make([]*tableVal, u.Len())
	default:
		// scalar local: last store wins if unique
	}
	for _, ref := range *al.Referrers() {
		switch r := ref.(type) {
		case *ssa.FieldAddr:
			for _, rr := range *r.Referrers() {
				if st, ok := rr.(*ssa.Store); ok && st.Addr == r && tv.Fields != nil {
					tv.Fields[r.Field] = miniEval(st.Val, fn, depth+1)
				}
			}
		case *ssa.IndexAddr:
			c, ok := r.Index.(*ssa.Const)
			if !ok || tv.Elems == nil {
				continue
			}
			i, _ := constant.Int64Val(c.Value)
			for _, rr := range *r.Referrers() {
				if st, ok := rr.(*ssa.Store); ok && st.Addr == r && int(i) < len(tv.Elems) {
					tv.Elems[i] = miniEval(st.Val, fn, depth+1)
				}
			}
		case *ssa.Store:
			if r.Addr == al && tv.Fields == nil && tv.Elems == nil {
				return miniEval(r.Val, fn, depth+1)
			}
		}
	}
	return tv
}

// findMapLiteral locates the MakeMap that initialises `name`: a package-level
// variable (in init) or a local variable of function `in`.
func (e *Engine) tableFor(pkgPath, name, in string) *tableDef {
	key := pkgPath + "." + in + "." + name
	if t, ok := e.tables[key]; ok {
		return t
	}
	td := &tableDef{Name: name}
	e.tables[key] = td
	sp := e.spkgs[pkgPath]
	if sp == nil {
		td.Problem = "package not loaded"
		return td
	}
	var fn *ssa.Function
	var mk *ssa.MakeMap
	if in == "" {
		fn = sp.Func("init")
		g, _ := sp.Members[name].(*ssa.Global)
		if g == nil {
			td.Problem = "no package-level variable " + name
			return td
		}
		for _, b := range fn.Blocks {
			for _, ins := range b.Instrs {
				if st, ok := ins.(*ssa.Store); ok && st.Addr == g {
					mk, _ = st.Val.(*ssa.MakeMap)
				}
			}
		}
	} else {
		fn = e.lookupFunc(pkgPath + "." + in)
		if fn == nil {
			td.Problem = "no function " + in
			return td
		}
		for _, b := range fn.Blocks {
			for _, ins := range b.Instrs {
				if st, ok := ins.(*ssa.Store); ok {
					if al, ok := st.Addr.(*ssa.Alloc); ok && al.Comment == name {
						if m, ok := st.Val.(*ssa.MakeMap); ok {
							mk = m
						}
					}
				}
			}
		}
	}
	if mk == nil {
		td.Problem = "map literal for " + name + " not found"
		return td
	}
	mt := mk.Type().Underlying().(*types.Map)
	td.KT, td.VT = mt.Key(), mt.Elem()
	seen := map[string]bool{}
	// updates directly on the MakeMap, or through loads of the variable holding it
	var updates []*ssa.MapUpdate
	for _, ref := range *mk.Referrers() {
		if mu, ok := ref.(*ssa.MapUpdate); ok && mu.Map == mk {
			updates = append(updates, mu)
		}
		if st, ok := ref.(*ssa.Store); ok {
			if al, ok := st.Addr.(*ssa.Alloc); ok {
				for _, r2 := range *al.Referrers() {
					if ld, ok := r2.(*ssa.UnOp); ok {
						for _, r3 := range *ld.Referrers() {
							if mu, ok := r3.(*ssa.MapUpdate); ok && mu.Map == ld {
								updates = append(updates, mu)
							}
						}
					}
				}
			}
		}
	}
	for _, mu := range updates {
		kc, ok := mu.Key.(*ssa.Const)
		if !ok {
			td.Problem = "non-constant key in map literal"
			continue
		}
		ks := kc.Value.ExactString()
		if seen[ks] {
			td.Problem = "duplicate key " + ks
		}
		seen[ks] = true
		v := miniEval(mu.Value, fn, 0)
		if v == nil {
			td.Problem = "entry " + ks + " is not a literal"
			continue
		}
		td.Entries = append(td.Entries, tableEntry{kc, v})
	}
	return td
}

// globalMapIsConst: the map is written only by its initialiser.
func (e *Engine) globalMapIsConst(g *ssa.Global) bool {
	pkg := g.Pkg
	for _, m := range pkg.Members {
		fn, ok := m.(*ssa.Function)
		if !ok {
			continue
		}
		fns := append([]*ssa.Function{fn}, fn.AnonFuncs...)
		for _, f := range fns {
			for _, b := range f.Blocks {
				for _, ins := range b.Instrs {
					switch x := ins.(type) {
					case *ssa.Store:
						if x.Addr == g && f.Name() != "init" {
							return false
						}
					case *ssa.MapUpdate:
						if u, ok := x.Map.(*ssa.UnOp); ok && u.X == g {
							return false
						}
					case *ssa.Call:
						if b, ok := x.Call.Value.(*ssa.Builtin); ok && b.Name() == "delete" {
							if u, ok := x.Call.Args[0].(*ssa.UnOp); ok && u.X == g {
								return false
							}
						}
					}
				}
			}
		}
	}
	// methods
	return true
}

func constTerm(e *Engine, c *ssa.Const) (Sc, bool) {
	ss, ok := scalarSort(c.Type())
	if !ok || c.Value == nil {
		return Sc{}, false
	}
	switch ss {
	case SInt:
		i, _ := constant.Int64Val(constant.ToInt(c.Value))
		return Sc{smtInt(i), SInt}, true
	case SReal:
		return Sc{ratTerm(constant.ToFloat(c.Value)), SReal}, true
	case SBool:
		if constant.BoolVal(c.Value) {
			return Sc{"true", SBool}, true
		}
		return Sc{"false", SBool}, true
	case SStr:
		return Sc{e.literal(constant.StringVal(c.Value)), SStr}, true
	}
	return Sc{}, false
}

// keyMatch: the condition "k equals this literal key" (strings by content).
func keyMatch(e *Engine, k Sc, c *ssa.Const) string {
	if k.S == SStr {
		s := constant.StringVal(c.Value)
		parts := []string{fmt.Sprintf("(= (gs.len %s) %d)", k.T, len(s))}
		for i := 0; i < len(s); i++ {
			parts = append(parts, fmt.Sprintf("(= (gs.at %s %d) %d)", k.T, i, s[i]))
		}
		return and(parts...)
	}
	ct, _ := constTerm(e, c)
	return app("=", k.T, ct.T)
}

func (e *Engine) tableValueToValue(st *State, tv *tableVal, t types.Type) Value {
	if tv == nil {
		return nil
	}
	if tv.Const != nil {
		if s, ok := constTerm(e, tv.Const); ok {
			return s
		}
		return nil
	}
	if tv.Fields != nil {
		su, ok := t.Underlying().(*types.Struct)
		if !ok {
			return nil
		}
		sv := StructV{T: t}
		for i, f := range tv.Fields {
			var fv Value
			if f == nil {
				fv = e.zero(st, su.Field(i).Type())
			} else {
				fv = e.tableValueToValue(st, f, su.Field(i).Type())
			}
			if fv == nil {
				return nil
			}
			sv.F = append(sv.F, fv)
		}
		return sv
	}
	return nil
}

// tableLookup models m[k] for a package-level map that only its initialiser writes.
func (e *Engine) tableLookup(st *State, fc *funcCtx, g *ssa.Global, k Sc) (Value, string) {
	td := e.tableFor(g.Pkg.Pkg.Path(), g.Name(), "")
	if td.Problem != "" {
		panic(engineAbort{"table " + g.Name() + ": " + td.Problem})
	}
	e.mu.Lock()
	e.used["table read from code literal: "+g.Name()+fmt.Sprintf(" (%d entries; only its initialiser writes it)", len(td.Entries))] = true
	e.mu.Unlock()
	var found []string
	zero := e.zero(st, td.VT)
	res := zero
	for i := len(td.Entries) - 1; i >= 0; i-- {
		en := td.Entries[i]
		m := keyMatch(e, k, en.Key)
		found = append(found, m)
		v := e.tableValueToValue(st, en.Val, td.VT)
		if v == nil {
			panic(engineAbort{"table " + g.Name() + ": entry is not a scalar/struct literal"})
		}
		res = iteValue(m, v, res)
	}
	return res, or(found...)
}

func iteValue(c string, a, b Value) Value {
	switch x := a.(type) {
	case Sc:
		y := b.(Sc)
		return Sc{fmt.Sprintf("(ite %s %s %s)", c, x.T, y.T), x.S}
	case StructV:
		y := b.(StructV)
		n := StructV{T: x.T}
		for i := range x.F {
			n.F = append(n.F, iteValue(c, x.F[i], y.F[i]))
		}
		return n
	}
	panic(engineAbort{"ite over unsupported value"})
}

func (e *Engine) globalStructConst(st *State, g *ssa.Global) (Value, bool) {
	// package-level struct initialised by a literal in init and never written elsewhere
	fn := g.Pkg.Func("init")
	var fields []*tableVal
	su := deref(g.Type()).Underlying().(*types.Struct)
	fields = make([]*tableVal, su.NumFields())
	ok := false
	for _, b := range fn.Blocks {
		for _, ins := range b.Instrs {
			if fa, isFA := ins.(*ssa.FieldAddr); isFA && fa.X == g {
				for _, rr := range *fa.Referrers() {
					if s, isS := rr.(*ssa.Store); isS && s.Addr == fa {
						fields[fa.Field] = miniEval(s.Val, fn, 0)
						ok = true
					}
				}
			}
			if s, isS := ins.(*ssa.Store); isS && s.Addr == g {
				if tv := miniEval(s.Val, fn, 0); tv != nil && tv.Fields != nil {
					fields = tv.Fields
					ok = true
				}
			}
		}
	}
	if !ok {
		return nil, false
	}
	// written elsewhere?
	for _, m := range g.Pkg.Members {
		f, isF := m.(*ssa.Function)
		if !isF || f.Name() == "init" {
			continue
		}
		for _, ff := range append([]*ssa.Function{f}, f.AnonFuncs...) {
			for _, b := range ff.Blocks {
				for _, ins := range b.Instrs {
					if s, isS := ins.(*ssa.Store); isS {
						if s.Addr == g {
							return nil, false
						}
						if fa, isFA := s.Addr.(*ssa.FieldAddr); isFA && fa.X == g {
							return nil, false
						}
					}
				}
			}
		}
	}
	v := e.tableValueToValue(st, &tableVal{Fields: fields}, deref(g.Type()))
	if v == nil {
		return nil, false
	}
	e.mu.Lock()
	e.used["constant read from code literal: "+g.Name()] = true
	e.mu.Unlock()
	return v, true
}

// tableDefineFun renders a `table` spec function as an ite chain over the literal.
// Forms:  table <var> [in <func>] default <expr>            (scalar values)
//
//	table <var>.<Field> ... / table <var>#len / table <var>#<i>   (struct field, list length, list element)
//	table <var>@<argIndex>  (i-th constant argument of a call-valued entry; string results indexed by 2nd param)
func (e *Engine) tableDefineFun(sp *SpecFunc) string {
	if strings.HasPrefix(sp.Table, "literal:") {
		return e.literalDefineFun(sp)
	}
	name := sp.Table
	sel := ""
	if i := strings.IndexAny(name, ".#@"); i >= 0 {
		sel = name[i:]
		name = name[:i]
	}
	td := e.tableFor(sp.Pkg, name, sp.TableIn)
	if td.Problem != "" {
		panic(cevalErr{"table " + name + ": " + td.Problem})
	}
	var binders []string
	for _, p := range sp.Params {
		binders = append(binders, fmt.Sprintf("(%s %s)", p.Name, typeSort(p.Type)))
	}
	k := Sc{sp.Params[0].Name, typeSort(sp.Params[0].Type)}
	rs := typeSort(sp.Result)
	def := zeroOfSort(rs)
	if sp.Default != nil {
		def = e.cevalScalar(sp.Default, &Env{vars: map[string]Value{}, bound: map[string]string{}}).T
	}
	body := def
	for i := len(td.Entries) - 1; i >= 0; i-- {
		en := td.Entries[i]
		v := en.Val
		var term string
		switch {
		case sel == "":
			if v.Const == nil {
				panic(cevalErr{"table " + name + ": entry is not a scalar"})
			}
			s, _ := constTerm(e, v.Const)
			term = s.T
		case strings.HasPrefix(sel, "."):
			su, ok := td.VT.Underlying().(*types.Struct)
			if !ok || v.Fields == nil {
				panic(cevalErr{"table " + name + ": not a struct table"})
			}
			fi := -1
			for j := 0; j < su.NumFields(); j++ {
				if su.Field(j).Name() == sel[1:] {
					fi = j
				}
			}
			if fi < 0 {
				panic(cevalErr{"table " + name + ": no field " + sel[1:]})
			}
			f := v.Fields[fi]
			switch {
			case f == nil:
				term = zeroOfSort(rs)
			case f.Const != nil:
				s, _ := constTerm(e, f.Const)
				term = s.T
			case f.Call != "" && len(f.Args) > 0 && f.Args[0] != nil && f.Args[0].Const != nil:
				// e.g. regexp.MustCompile("GGTCTC"): the pattern text
				s, _ := constTerm(e, f.Args[0].Const)
				term = s.T
			default:
				panic(cevalErr{"table " + name + ": field " + sel[1:] + " is not a literal"})
			}
		case sel == "#len":
			term = fmt.Sprint(len(v.Elems))
		case strings.HasPrefix(sel, "#"):
			// element at position given by the second parameter
			if len(sp.Params) < 2 {
				panic(cevalErr{"table " + name + sel + " needs (key, index) parameters"})
			}
			ix := sp.Params[1].Name
			term = def
			for j := len(v.Elems) - 1; j >= 0; j-- {
				if v.Elems[j] == nil || v.Elems[j].Const == nil {
					panic(cevalErr{"table " + name + ": list element is not a literal"})
				}
				s, _ := constTerm(e, v.Elems[j].Const)
				term = fmt.Sprintf("(ite (= %s %d) %s %s)", ix, j, s.T, term)
			}
		case strings.HasPrefix(sel, "@"):
			var ai int
			fmt.Sscanf(sel[1:], "%d", &ai)
			if v.Call == "" || ai >= len(v.Args) || v.Args[ai] == nil || v.Args[ai].Const == nil {
				panic(cevalErr{"table " + name + ": entry is not a call with constant arguments"})
			}
			s, _ := constTerm(e, v.Args[ai].Const)
			term = s.T
		}
		body = fmt.Sprintf("(ite %s %s %s)", keyMatch(e, k, en.Key), term, body)
	}
	e.mu.Lock()
	e.used[fmt.Sprintf("table read from code literal: %s%s (%d entries)", name, sel, len(td.Entries))] = true
	e.mu.Unlock()
	return fmt.Sprintf("(define-fun %s (%s) %s %s)\n", sp.Name, strings.Join(binders, " "), rs, body)
}

func structOf(t types.Type) *types.Struct {
	s, _ := t.Underlying().(*types.Struct)
	return s
}

// literalDefineFun: a 0-ary string spec function whose value is the constant a
// local variable of a function is initialised from (e.g. []rune("ACDE...")).
func (e *Engine) literalDefineFun(sp *SpecFunc) string {
	varName := strings.TrimPrefix(sp.Table, "literal:")
	fn := e.lookupFunc(sp.Pkg + "." + sp.TableIn)
	if fn == nil {
		panic(cevalErr{"literal " + varName + ": no function " + sp.TableIn})
	}
	for _, b := range fn.Blocks {
		for _, ins := range b.Instrs {
			st, ok := ins.(*ssa.Store)
			if !ok {
				continue
			}
			al, ok := st.Addr.(*ssa.Alloc)
			if !ok || al.Comment != varName {
				continue
			}
			tv := miniEval(st.Val, fn, 0)
			if tv != nil && tv.Const != nil && tv.Const.Value != nil && tv.Const.Value.Kind() == constant.String {
				e.mu.Lock()
				e.used["literal read from code: "+varName+" in "+sp.TableIn] = true
				e.mu.Unlock()
				return fmt.Sprintf("(define-fun %s () Str %s)\n", sp.Name, e.literal(constant.StringVal(tv.Const.Value)))
			}
		}
	}
	panic(cevalErr{"literal " + varName + " in " + sp.TableIn + ": not initialised from a string constant"})
}

// globalIsConstError: a package-level error variable initialised with errors.New /
// fmt.Errorf in the package initialiser and never assigned anywhere else is non-nil.
func (e *Engine) globalIsConstError(g *ssa.Global) bool {
	initFn := g.Pkg.Func("init")
	ok := false
	for _, b := range initFn.Blocks {
		for _, ins := range b.Instrs {
			st, isS := ins.(*ssa.Store)
			if !isS || st.Addr != g {
				continue
			}
			v := st.Val
			if mi, isMI := v.(*ssa.MakeInterface); isMI {
				v = mi.X
			}
			c, isC := v.(*ssa.Call)
			if !isC || c.Call.StaticCallee() == nil {
				return false
			}
			switch funcKey(c.Call.StaticCallee()) {
			case "errors.New", "fmt.Errorf":
				ok = true
			default:
				return false
			}
		}
	}
	if !ok {
		return false
	}
	for _, m := range g.Pkg.Members {
		f, isF := m.(*ssa.Function)
		if !isF || f.Name() == "init" {
			continue
		}
		for _, ff := range append([]*ssa.Function{f}, f.AnonFuncs...) {
			for _, b := range ff.Blocks {
				for _, ins := range b.Instrs {
					if s, isS := ins.(*ssa.Store); isS && s.Addr == g {
						return false
					}
				}
			}
		}
	}
	e.mu.Lock()
	e.used["package-level error "+g.Name()+" is initialised once with errors.New and never reassigned (non-nil)"] = true
	e.mu.Unlock()
	return true
}
