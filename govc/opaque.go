package main

// Opaque struct types: a read-mostly recursive struct (poly.Location) is
// modelled as an uninterpreted SMT sort with one accessor function per field;
// a slice-typed field becomes a length function and an element function. This
// lets spec functions range over whole trees (`evalLoc(parent, l)`), which the
// per-field slice heaps cannot express.

import (
	"fmt"
	"go/types"
	"strings"
	"sync"
)

type OpaqueType struct {
	Sort     string
	GoType   string // qualified Go type name as written in the contract file
	T        types.Type
	OnDemand bool // active only in functions whose contract says `note opaque <Sort> ...`
}

var opaqueDeclared = map[string]*OpaqueType{} // by types.TypeString: every declared opaque type

var opaqueMu sync.Mutex
var opaqueByType = map[string]*OpaqueType{} // key: types.TypeString
var opaqueBySort = map[string]*OpaqueType{}

// OSeqV: a slice-typed field of an opaque value.
type OSeqV struct {
	Owner string // term of the opaque value
	Sort  string // owner sort
	Field string
	Elem  types.Type
}

func lookupOpaque(t types.Type) *OpaqueType {
	opaqueMu.Lock()
	defer opaqueMu.Unlock()
	return opaqueByType[types.TypeString(t, nil)]
}

func opaqueSort(name string) *OpaqueType {
	opaqueMu.Lock()
	defer opaqueMu.Unlock()
	return opaqueBySort[name]
}

// registerOpaque binds `opaque <pkg>.<Type> <Sort>` clauses to loaded types.
func (e *Engine) registerOpaque() error {
	for _, o := range e.cs.Opaque {
		t := e.lookupType(o.GoType)
		if t == nil {
			return fmt.Errorf("opaque type %s not found", o.GoType)
		}
		if _, ok := t.Underlying().(*types.Struct); !ok {
			return fmt.Errorf("opaque type %s is not a struct", o.GoType)
		}
		ot := &OpaqueType{Sort: o.Sort, GoType: o.GoType, T: t, OnDemand: o.OnDemand}
		opaqueMu.Lock()
		opaqueDeclared[types.TypeString(t, nil)] = ot
		if !o.OnDemand {
			opaqueByType[types.TypeString(t, nil)] = ot
		}
		opaqueBySort[o.Sort] = ot
		opaqueMu.Unlock()
	}
	return nil
}

func accName(sortName, field string) string { return sortName + "." + field }

// opaqueField: value of field `name` of opaque term v.
func opaqueField(ot *OpaqueType, v string, name string) (Value, bool) {
	st := ot.T.Underlying().(*types.Struct)
	for i := 0; i < st.NumFields(); i++ {
		f := st.Field(i)
		if f.Name() != name {
			continue
		}
		if ss, ok := scalarSort(f.Type()); ok {
			return Sc{app(accName(ot.Sort, name), v), ss}, true
		}
		if sl, ok := f.Type().Underlying().(*types.Slice); ok {
			return OSeqV{Owner: v, Sort: ot.Sort, Field: name, Elem: sl.Elem()}, true
		}
		return OpaqueV{"field " + name + " of opaque " + ot.Sort}, true
	}
	return nil, false
}

func opaqueFieldIndex(ot *OpaqueType, i int) string {
	return ot.T.Underlying().(*types.Struct).Field(i).Name()
}

func (q OSeqV) lenTerm() string { return app(accName(q.Sort, q.Field)+".len", q.Owner) }
func (q OSeqV) at(i string) Value {
	es, ok := scalarSort(q.Elem)
	if !ok {
		return OpaqueV{"element of opaque sequence"}
	}
	return Sc{app(accName(q.Sort, q.Field)+".at", q.Owner, i), es}
}

// opaqueDecls: sort, accessors and their basic axioms.
func opaqueDecls(ot *OpaqueType) string {
	var b strings.Builder
	st := ot.T.Underlying().(*types.Struct)
	for i := 0; i < st.NumFields(); i++ {
		f := st.Field(i)
		if ss, ok := scalarSort(f.Type()); ok {
			b.WriteString(fmt.Sprintf("(declare-fun %s (%s) %s)\n", accName(ot.Sort, f.Name()), ot.Sort, ss))
			continue
		}
		if sl, ok := f.Type().Underlying().(*types.Slice); ok {
			if es, ok := scalarSort(sl.Elem()); ok {
				n := accName(ot.Sort, f.Name())
				b.WriteString(fmt.Sprintf("(declare-fun %s.len (%s) Int)\n", n, ot.Sort))
				b.WriteString(fmt.Sprintf("(declare-fun %s.at (%s Int) %s)\n", n, ot.Sort, es))
				b.WriteString(fmt.Sprintf("(assert (forall ((x %s)) (! (>= (%s.len x) 0) :pattern ((%s.len x)))))\n", ot.Sort, n, n))
			}
		}
	}
	// functional update of a scalar field: Sort.set.Field(x, v) is x with that field replaced
	for i := 0; i < st.NumFields(); i++ {
		f := st.Field(i)
		fs, ok := scalarSort(f.Type())
		if !ok {
			continue
		}
		set := ot.Sort + ".set." + f.Name()
		b.WriteString(fmt.Sprintf("(declare-fun %s (%s %s) %s)\n", set, ot.Sort, fs, ot.Sort))
		for j := 0; j < st.NumFields(); j++ {
			g := st.Field(j)
			a := accName(ot.Sort, g.Name())
			if _, ok := scalarSort(g.Type()); ok {
				rhs := fmt.Sprintf("(%s x)", a)
				if j == i {
					rhs = "v"
				}
				b.WriteString(fmt.Sprintf("(assert (forall ((x %s) (v %s)) (! (= (%s (%s x v)) %s) :pattern ((%s x v)))))\n", ot.Sort, fs, a, set, rhs, set))
				continue
			}
			if sl, ok := g.Type().Underlying().(*types.Slice); ok {
				if _, ok := scalarSort(sl.Elem()); ok {
					b.WriteString(fmt.Sprintf("(assert (forall ((x %s) (v %s)) (! (= (%s.len (%s x v)) (%s.len x)) :pattern ((%s x v)))))\n", ot.Sort, fs, a, set, a, set))
					b.WriteString(fmt.Sprintf("(assert (forall ((x %s) (v %s) (j Int)) (! (= (%s.at (%s x v) j) (%s.at x j)) :pattern ((%s.at (%s x v) j)))))\n", ot.Sort, fs, a, set, a, a, set))
				}
			}
		}
	}
	return b.String()
}

// opaqueUpdate: a copy of opaque value v with field `name` replaced (by-value
// struct assignment). Returns the new term and the facts that define it.
func opaqueUpdate(st *State, ot *OpaqueType, v string, name string, nv Value) string {
	s := ot.T.Underlying().(*types.Struct)
	for i := 0; i < s.NumFields(); i++ {
		if f := s.Field(i); f.Name() == name {
			if _, ok := scalarSort(f.Type()); ok {
				if sc, ok := nv.(Sc); ok {
					return app(ot.Sort+".set."+name, v, sc.T)
				}
			}
		}
	}
	n := st.freshConst(strings.ToLower(ot.Sort), ot.Sort)
	for i := 0; i < s.NumFields(); i++ {
		f := s.Field(i)
		if ss, ok := scalarSort(f.Type()); ok {
			_ = ss
			a := accName(ot.Sort, f.Name())
			if f.Name() == name {
				if sc, ok := nv.(Sc); ok {
					st.assume(app("=", app(a, n), sc.T))
				}
			} else {
				st.assume(app("=", app(a, n), app(a, v)))
			}
			continue
		}
		if _, ok := f.Type().Underlying().(*types.Slice); ok {
			a := accName(ot.Sort, f.Name())
			if f.Name() == name {
				continue // assigning slices into opaque values is not modelled (field left arbitrary)
			}
			st.assume(app("=", app(a+".len", n), app(a+".len", v)))
			st.assume(fmt.Sprintf("(forall ((j Int)) (! (= (%s.at %s j) (%s.at %s j)) :pattern ((%s.at %s j))))", a, n, a, v, a, n))
		}
	}
	return n
}

// activateOpaque switches on the on-demand opaque sorts a contract asks for
// (`note opaque Tbl AA Cod`) and switches the others off. Verification of functions is sequential.
func activateOpaque(notes []string) {
	want := map[string]bool{}
	for _, n := range notes {
		if strings.HasPrefix(n, "opaque ") {
			for _, s := range strings.Fields(n)[1:] {
				want[s] = true
			}
		}
	}
	opaqueMu.Lock()
	defer opaqueMu.Unlock()
	for k, ot := range opaqueDeclared {
		if !ot.OnDemand {
			continue
		}
		if want[ot.Sort] {
			opaqueByType[k] = ot
		} else {
			delete(opaqueByType, k)
		}
	}
}
