package main

import (
	"bufio"
	"bytes"
	"encoding/json"
	"flag"
	"fmt"
	"os"
	"os/exec"
	"path/filepath"
	"runtime"
	"sort"
	"strconv"
	"strings"
	"sync"
	"time"
)

// ---- property map (/verif/props.json) ----

type BoundedSpec struct {
	Pkg     string   `json:"pkg"`   // directory below /repo ("." for the root package)
	Test    string   `json:"test"`  // test function name
	Files   []string `json:"files"` // test sources below /verif/bounded to inject
	Clauses []string `json:"clauses"`
	Domain  string   `json:"domain"`
	QuickS  int      `json:"quick_timeout_s"`
	ThoroS  int      `json:"thorough_timeout_s"`
	Race    bool     `json:"race"`
	Extra   []string `json:"extra_pkgs"` // oracle packages to inject (dirs below /verif/oracle)
}

type PropSpec struct {
	ID          string        `json:"id"`
	Level       string        `json:"level"`
	Functions   []string      `json:"functions"`
	Lemmas      []string      `json:"lemmas"`
	Static      []string      `json:"static"` // named static analyses (order-taint, json-tags, ...)
	Bounded     []BoundedSpec `json:"bounded"`
	Witness     []WitnessSpec `json:"witness"` // functions whose contract clauses are re-proved on executions of the real function
	Assumptions []string      `json:"assumptions"`
	Explanation string        `json:"explanation"`
}

type KnownFinding struct {
	Property   string `json:"property"`
	Obligation string `json:"obligation"`
	Class      string `json:"class"`
	Example    string `json:"example"`
	Status     string `json:"status"` // known | fixed
	Commit     string `json:"commit,omitempty"`
	What       string `json:"what"`
}

type Failure struct {
	Obligation string `json:"obligation"`
	Class      string `json:"class"`
	Input      string `json:"input"`
	Detail     string `json:"detail"`
	Backend    string `json:"backend"` // smt | bounded | static | attach
	NoInput    bool   `json:"no_failing_input_found"`
	SolverOut  string `json:"solver_output,omitempty"`
	SMTFile    string `json:"smt_file,omitempty"`
	Replay     string `json:"replay_cmd,omitempty"`
	Generated  string `json:"generated_test,omitempty"` // witness runs: the injected test (the replay command's overlay refers to a copy of it)
}

type BoundedResult struct {
	Prop        string           `json:"prop"`
	Clause      string           `json:"clause"`
	Evaluations int              `json:"evaluations"`
	Nontrivial  int              `json:"nontrivial"`
	Exhaustive  bool             `json:"exhaustive"`
	Domain      string           `json:"domain"`
	Samples     []string         `json:"samples"`
	Failures    []BoundedFailure `json:"failures"`
}

type BoundedFailure struct {
	Clause string `json:"clause"`
	Class  string `json:"class"`
	Input  string `json:"input"`
	Detail string `json:"detail"`
}

func loadProps(verif string) (map[string]*PropSpec, error) {
	data, err := os.ReadFile(filepath.Join(verif, "props.json"))
	if err != nil {
		return nil, err
	}
	var list []*PropSpec
	if err := json.Unmarshal(data, &list); err != nil {
		return nil, fmt.Errorf("props.json: %v", err)
	}
	m := map[string]*PropSpec{}
	for _, p := range list {
		m[p.ID] = p
	}
	return m, nil
}

func loadKnown(verif string) ([]KnownFinding, error) {
	data, err := os.ReadFile(filepath.Join(verif, "known_findings.json"))
	if err != nil {
		if os.IsNotExist(err) {
			return nil, nil
		}
		return nil, err
	}
	var list []KnownFinding
	if err := json.Unmarshal(data, &list); err != nil {
		return nil, fmt.Errorf("known_findings.json: %v", err)
	}
	return list, nil
}

func goEnv() []string {
	return append(os.Environ(), "GOFLAGS=-mod=mod", "GOPROXY=off", "GOSUMDB=off", "GOTOOLCHAIN=local")
}

// runBounded injects the test sources with -overlay (nothing is written into
// the repository) and runs them against the real code.
func runBounded(verif, repo, work string, bs BoundedSpec, tier string, seed int64) ([]BoundedResult, string, error) {
	pkgDir := filepath.Join(repo, bs.Pkg)
	pkgName, err := packageName(pkgDir)
	if err != nil {
		return nil, "", err
	}
	ov := map[string]string{}
	util, err := os.ReadFile(filepath.Join(verif, "bounded", "util_test.go.tmpl"))
	if err != nil {
		return nil, "", err
	}
	os.MkdirAll(work, 0755)
	utilPath := filepath.Join(work, "zz_verif_util_"+sanitize(bs.Pkg)+"_test.go")
	if err := os.WriteFile(utilPath, bytes.Replace(util, []byte("package PKG"), []byte("package "+pkgName), 1), 0644); err != nil {
		return nil, "", err
	}
	ov[filepath.Join(pkgDir, "zz_verif_util_test.go")] = utilPath
	for _, f := range bs.Files {
		ov[filepath.Join(pkgDir, "zz_verif_"+filepath.Base(f))] = filepath.Join(verif, "bounded", f)
	}
	for _, x := range bs.Extra {
		srcs, _ := filepath.Glob(filepath.Join(verif, "oracle", x, "*.go"))
		for _, s := range srcs {
			ov[filepath.Join(repo, "zzverif", x, filepath.Base(s))] = s
		}
	}
	ovData, _ := json.Marshal(map[string]interface{}{"Replace": ov})
	ovPath := filepath.Join(work, "overlay_"+sanitize(bs.Pkg+"_"+bs.Test)+".json")
	if err := os.WriteFile(ovPath, ovData, 0644); err != nil {
		return nil, "", err
	}
	to := bs.QuickS
	if tier == "thorough" && bs.ThoroS > 0 {
		to = bs.ThoroS
	}
	if to == 0 {
		to = 120
	}
	args := []string{"test", "-tags", "verif", "-overlay", ovPath, "-vet=off", "-v", "-count=1", "-timeout", fmt.Sprintf("%ds", to), "-run", "^" + bs.Test + "$"}
	if bs.Race && tier == "thorough" {
		args = append(args, "-race")
	}
	args = append(args, "./"+bs.Pkg)
	cmd := exec.Command("go", args...)
	cmd.Dir = repo
	cmd.Env = append(goEnv(), "VERIF_TIER="+tier, "VERIF_SEED="+strconv.FormatInt(seed, 10))
	var out bytes.Buffer
	cmd.Stdout = &out
	cmd.Stderr = &out
	runErr := cmd.Run()
	var results []BoundedResult
	sc := bufio.NewScanner(&out)
	sc.Buffer(make([]byte, 1<<20), 64<<20)
	var rest []string
	for sc.Scan() {
		ln := sc.Text()
		if i := strings.Index(ln, "VERIF-RESULT "); i >= 0 {
			var r BoundedResult
			if err := json.Unmarshal([]byte(ln[i+len("VERIF-RESULT "):]), &r); err == nil {
				results = append(results, r)
				continue
			}
		}
		rest = append(rest, ln)
	}
	cmdline := "cd " + repo + " && VERIF_TIER=" + tier + " VERIF_SEED=" + strconv.FormatInt(seed, 10) + " go " + strings.Join(args, " ")
	tail := strings.Join(rest, "\n")
	if len(tail) > 4000 {
		tail = tail[len(tail)-4000:]
	}
	if runErr != nil && len(results) == 0 {
		return nil, cmdline, fmt.Errorf("bounded test %s did not report (%v):\n%s", bs.Test, runErr, tail)
	}
	if runErr != nil {
		// results were printed but the test process failed afterwards (panic, timeout)
		return results, cmdline, fmt.Errorf("bounded test %s ended abnormally (%v):\n%s", bs.Test, runErr, tail)
	}
	return results, cmdline, nil
}

func packageName(dir string) (string, error) {
	ents, err := os.ReadDir(dir)
	if err != nil {
		return "", err
	}
	for _, en := range ents {
		if strings.HasSuffix(en.Name(), ".go") && !strings.HasSuffix(en.Name(), "_test.go") {
			data, err := os.ReadFile(filepath.Join(dir, en.Name()))
			if err != nil {
				continue
			}
			for _, ln := range strings.Split(string(data), "\n") {
				ln = strings.TrimSpace(ln)
				if strings.HasPrefix(ln, "package ") {
					return strings.Fields(ln)[1], nil
				}
			}
		}
	}
	return "", fmt.Errorf("no package clause in %s", dir)
}

// ---- check command ----

func cmdCheck(args []string) int {
	fs := flag.NewFlagSet("check", flag.ExitOnError)
	prop := fs.String("prop", "", "property id")
	tier := fs.String("tier", "quick", "quick|thorough")
	repo := fs.String("repo", "/repo", "")
	verif := fs.String("verif", "/verif", "")
	noEvidence := fs.Bool("no-evidence", false, "do not rewrite the evidence file (selftest on scratch copies)")
	ignoreKnown := fs.Bool("ignore-known", false, "report known findings as violations (selftest)")
	fs.Parse(args)
	if t := os.Getenv("VERIF_TIER"); t != "" && !flagSet(fs, "tier") {
		*tier = t
	}
	seed := int64(1)
	if s := os.Getenv("VERIF_SEED"); s != "" {
		if v, err := strconv.ParseInt(s, 10, 64); err == nil {
			seed = v
		}
	}
	t0 := time.Now()
	// watchdog: a change that makes the generator run away (unbounded unfolding of a type or of
	// paths) must end as a reported obligation, not as an out-of-memory kill of the machine
	go func() {
		for {
			time.Sleep(300 * time.Millisecond)
			var ms runtime.MemStats
			runtime.ReadMemStats(&ms)
			if ms.HeapAlloc > 10<<30 {
				rp := filepath.Join(*verif, "replays", *prop, "engine_memory.json")
				os.MkdirAll(filepath.Dir(rp), 0755)
				data, _ := json.MarshalIndent(map[string]interface{}{"property": *prop, "failure": Failure{Obligation: "engine/memory", Detail: "the verification-condition generator exceeded 10 GiB on this tree: some function under contract left the supported subset in a way that makes symbolic execution run away", Backend: "attach", NoInput: true}}, "", " ")
				os.WriteFile(rp, data, 0644)
				fmt.Printf("VIOLATION property=%s replay=%s no-failing-input-found\n  obligation engine/memory: generator exceeded its memory budget\n", *prop, rp)
				os.Exit(1)
			}
		}
	}()
	props, err := loadProps(*verif)
	if err != nil {
		fmt.Println("ENGINE-ERROR:", err)
		return 2
	}
	ps := props[*prop]
	if ps == nil {
		fmt.Println("ENGINE-ERROR: unknown property", *prop)
		return 2
	}
	known, err := loadKnown(*verif)
	if err != nil {
		fmt.Println("ENGINE-ERROR:", err)
		return 2
	}
	work := filepath.Join(*verif, ".work", *prop+"_"+*tier+fmt.Sprintf("_%d", os.Getpid()))
	os.RemoveAll(work)
	os.MkdirAll(work, 0755)
	defer os.RemoveAll(work)
	secs := 20
	if *tier == "thorough" {
		secs = 120
	}

	var failures []Failure
	var engineErrs []string
	var mu sync.Mutex
	var wg sync.WaitGroup

	// bounded back end, concurrently with VC generation
	var bresults []BoundedResult
	var bcmds []string
	for _, bs := range ps.Bounded {
		bs := bs
		wg.Add(1)
		go func() {
			defer wg.Done()
			rs, cmdline, err := runBounded(*verif, *repo, work, bs, *tier, seed)
			mu.Lock()
			defer mu.Unlock()
			bcmds = append(bcmds, cmdline)
			bresults = append(bresults, rs...)
			if err != nil {
				// the contract could not be executed against the code: drift or crash
				failures = append(failures, Failure{Obligation: "bounded/" + bs.Test + "/ran-to-completion", Class: "harness", Detail: err.Error(), Backend: "bounded", NoInput: true, Replay: cmdline})
			}
			for _, r := range rs {
				for _, f := range r.Failures {
					failures = append(failures, Failure{Obligation: f.Clause, Class: f.Class, Input: f.Input, Detail: f.Detail, Backend: "bounded", Replay: cmdline})
				}
			}
		}()
	}

	e := NewEngine(*repo, filepath.Join(work, "smt"))
	e.knownOpen = map[string]bool{}
	for _, k := range known {
		if k.Status == "known" && k.Property == *prop {
			e.knownOpen[k.Obligation] = true
		}
	}
	os.MkdirAll(e.workdir, 0755)
	var loadErr error
	var wreports []WitnessReport
	if len(ps.Functions) > 0 || len(ps.Lemmas) > 0 || len(ps.Static) > 0 || len(ps.Witness) > 0 {
		loadErr = e.Load("./...")
		if loadErr == nil {
			loadErr = e.LoadContracts(filepath.Join(*verif, "stdlib_contracts"))
		}
		if loadErr != nil {
			failures = append(failures, Failure{Obligation: "attach/load", Detail: loadErr.Error(), Backend: "attach", NoInput: true})
		} else {
			for _, f := range ps.Functions {
				e.runVerify(f)
			}
			for _, l := range ps.Lemmas {
				e.VerifyLemma(l)
			}
			for _, sname := range ps.Static {
				e.runStatic(sname)
			}
			var wfails []Failure
			var wwg sync.WaitGroup
			if len(ps.Witness) > 0 {
				wwg.Add(1)
				go func() {
					defer wwg.Done()
					wreports, wfails = e.runWitness(*repo, work, ps.Witness, seed, *tier, secs)
				}()
			}
			e.Solve(secs, 10)
			wwg.Wait()
			failures = append(failures, wfails...)
		}
	}
	wg.Wait()

	nObl, nDis := 0, 0
	var perObl []map[string]interface{}
	for _, n := range e.oblOrd {
		o := e.obls[n]
		nObl++
		if o.Status == "discharged" {
			nDis++
		}
		perObl = append(perObl, map[string]interface{}{"name": o.Name, "kind": o.Kind, "status": o.Status, "backend": o.Solver, "queries": len(o.Queries), "solver_s": round3(o.Secs), "what": o.Desc})
		if o.Status != "discharged" {
			f := Failure{Obligation: o.Name, Detail: o.Desc + " — " + o.Note, Backend: "smt", NoInput: true}
			if o.Kind == "attach" || o.Kind == "engine" || o.Kind == "contract" {
				f.Backend = "attach"
			}
			for _, q := range o.Queries {
				if q.Res.Status != "unsat" && q.Expect != "sat" {
					f.SolverOut = q.Res.Solver + ": " + q.Res.Status + " " + firstLine(q.Res.Output)
					f.Class = q.Res.Status
					// keep the script for the replay file
					f.SMTFile = q.Script
					// counterexample: from the solver's model, else from a model of the query with its
					// quantified assumptions dropped (a candidate only); confirmed by replay on the real code
					var ins []DecodedInput
					got := false
					if q.Res.Status == "sat" {
						ins, got = modelInputs(e.workdir, q.Script, q.Inputs, 10)
					}
					candidate := false
					if !got && len(q.Inputs) > 0 {
						ins, got = modelInputs(e.workdir, dropQuantified(q.Script), q.Inputs, 10)
						candidate = got
					}
					if got {
						var shown []string
						for _, d := range ins {
							shown = append(shown, d.Show)
						}
						desc := strings.Join(shown, " ")
						if strings.HasPrefix(o.Name, "lemma/") {
							ln := strings.Split(o.Name, "/")[1]
							if lm := e.cs.Lemmas[ln]; lm != nil {
								if ok, what, cmdline := e.replayLemma(*repo, filepath.Join(work, "replay"), lm, ins); ok {
									f.Input = desc
									f.NoInput = false
									f.Detail += " — replayed on the real code: " + what
									f.Replay = cmdline
								} else if !candidate {
									f.Detail += " — solver counterexample (not replayed on the real code): " + desc
								}
							}
						} else if panicKinds[o.Kind] {
							fk := o.Func
							full := modPath + "/" + fk
							if strings.HasPrefix(fk, "poly.") {
								full = modPath + "." + strings.TrimPrefix(fk, "poly.")
							}
							if ok, what, cmdline := e.replayPanic(*repo, filepath.Join(work, "replay"), full, ins); ok {
								f.Input = desc
								f.NoInput = false
								f.Detail += " — replayed on the real code: " + what
								f.Replay = cmdline
							}
						} else if !candidate {
							f.Detail += " — solver counterexample (not replayed on the real code): " + desc
						}
					}
					break
				}
			}
			if why, drift := e.drifted[o.Func]; drift && f.NoInput {
				// the contract was written for another shape of this function (a loop it has a clause for is
				// gone): what can still be proved is proved; what cannot is undecided — also when a solver
				// finds a model, unless that model was replayed on the real code and failed there (a helper
				// without contract makes values arbitrary that the real code constrains)
				f.Backend = "attach"
				f.Detail = why + "; not discharged for the function as it is now: " + f.Detail
			}
			failures = append(failures, f)
		}
	}

	// witness runs: one obligation per (function, clause), discharged when the clause was proved for
	// every execution inside the precondition
	wfailed := map[string]bool{}
	for _, f := range failures {
		if f.Backend == "witness" {
			wfailed[f.Obligation] = true
		}
	}
	for _, r := range wreports {
		var labels []string
		for l := range r.Clauses {
			labels = append(labels, l)
		}
		sort.Strings(labels)
		for _, l := range labels {
			name := r.Func + "/witness/" + l
			nObl++
			status := "discharged"
			switch {
			case wfailed[name]:
				status = "failed"
			case r.Clauses[l] != r.Accepted:
				status = "inconclusive" // some execution neither proved nor refuted in this run: no verdict, no violation
			default:
				nDis++
			}
			perObl = append(perObl, map[string]interface{}{"name": name, "kind": "witness", "status": status, "backend": "go test -overlay + z3/cvc5", "queries": r.Accepted,
				"what": fmt.Sprintf("clause instantiated with the arguments and results of %d executions of the real function (of %d generated; the rest lie outside the precondition) follows from the spec functions", r.Accepted, r.Samples)})
		}
	}

	// known findings
	violations := 0
	var knownPrinted []string
	sort.SliceStable(failures, func(i, j int) bool { return failures[i].Obligation < failures[j].Obligation })
	seenKnown := map[string]bool{}
	seenViol := map[string]bool{}
	var undecided []string
	replayDir := filepath.Join(*verif, "replays", *prop)
	for _, f := range failures {
		matched := false
		if !*ignoreKnown {
			for _, k := range known {
				if k.Status != "known" || k.Property != *prop || k.Obligation != f.Obligation {
					continue
				}
				if k.Class != "" && k.Class != "*" && k.Class != f.Class {
					continue
				}
				matched = true
				key := k.Obligation + "|" + k.Class
				if !seenKnown[key] {
					seenKnown[key] = true
					line := fmt.Sprintf("KNOWN-FINDING: property=%s %s [%s] %s", *prop, k.Obligation, k.Class, k.What)
					fmt.Println(line)
					knownPrinted = append(knownPrinted, line)
				}
				break
			}
		}
		if matched {
			continue
		}
		key := f.Obligation + "|" + f.Class
		if seenViol[key] {
			continue
		}
		seenViol[key] = true
		if f.Backend == "attach" && f.Obligation != "attach/load" {
			// The contract no longer fits the shape of the function (a loop without invariant, a name the
			// contract mentions that is gone, a construct outside the supported subset): the deductive
			// route cannot decide this function on this tree. That is undecided, not a refutation: there
			// is no solver verdict to attach. The bounded clauses and witness runs of the property still
			// ran against the changed code and report on their own.
			line := fmt.Sprintf("UNDECIDED: property=%s %s — %s", *prop, f.Obligation, truncate(strings.ReplaceAll(f.Detail, "\n", " | "), 300))
			fmt.Println(line)
			undecided = append(undecided, line)
			continue
		}
		violations++
		os.MkdirAll(replayDir, 0755)
		rp := filepath.Join(replayDir, sanitize(f.Obligation+"_"+f.Class)+".json")
		smt := f.SMTFile
		if smt != "" {
			sp := strings.TrimSuffix(rp, ".json") + ".smt2"
			os.WriteFile(sp, []byte(smt+"(check-sat)\n"), 0644)
			f.SMTFile = sp
		}
		if f.Replay == "" {
			f.Replay = fmt.Sprintf("cd /verif && ./check %s --tier %s", *prop, *tier)
		}
		data, _ := json.MarshalIndent(map[string]interface{}{"property": *prop, "failure": f, "tier": *tier, "seed": seed}, "", " ")
		os.WriteFile(rp, data, 0644)
		suffix := ""
		if f.NoInput || f.Input == "" {
			suffix = " no-failing-input-found"
		}
		fmt.Printf("VIOLATION property=%s replay=%s%s\n", *prop, rp, suffix)
		fmt.Printf("  obligation %s [%s] %s\n", f.Obligation, f.Class, truncate(strings.ReplaceAll(f.Detail, "\n", " | "), 400))
		if f.Input != "" {
			fmt.Printf("  input %s\n", truncate(f.Input, 400))
		}
	}
	for _, er := range engineErrs {
		fmt.Println("ENGINE-ERROR:", er)
	}

	// evidence
	if !*noEvidence {
		evals, nontriv := 0, 0
		var samples []interface{}
		var bounded []map[string]interface{}
		exhaustiveAll := len(bresults) > 0
		for _, r := range bresults {
			evals += r.Evaluations
			nontriv += r.Nontrivial
			for i, s := range r.Samples {
				if i < 3 {
					samples = append(samples, map[string]string{"clause": r.Clause, "case": s})
				}
			}
			if !r.Exhaustive {
				exhaustiveAll = false
			}
			bounded = append(bounded, map[string]interface{}{"clause": r.Clause, "domain": r.Domain, "evaluations": r.Evaluations, "distinct_nontrivial": r.Nontrivial, "exhaustive_over_domain": r.Exhaustive, "failures": len(r.Failures), "label": "bounded (never counted as proved)"})
		}
		for i, po := range perObl {
			if i < 5 {
				samples = append(samples, map[string]interface{}{"obligation": po["name"], "what": po["what"], "status": po["status"]})
			}
		}
		var trusted []string
		for u := range e.used {
			trusted = append(trusted, u)
		}
		for n := range e.notes {
			trusted = append(trusted, "unmodelled: "+n)
		}
		sort.Strings(trusted)
		trusted = append([]string{"govc (this VC generator) and go/ssa as the semantics of the supported Go subset", "z3 4.8.12, z3 5.1.0, cvc5 1.0 (one unsat answer discharges an obligation)", "int as mathematical integer (no overflow), float64 as real", "facts the generator supplies at every loop head as Go semantics, not as invariants: the position of a range over a slice/array/integer lies within the length taken before the loop; a local slice only ever assigned nil, make, a literal, a re-slice of itself or append to itself holds storage allocated by this call"}, trusted...)
		var fns []string
		for f := range e.funcsUnderContract {
			fns = append(fns, f)
		}
		sort.Strings(fns)
		cov := map[string]interface{}{
			"obligations": nObl, "discharged": nDis,
			"checker_cmd":  fmt.Sprintf("cd /verif && ./check %s --tier %s", *prop, *tier),
			"trusted_base": trusted,
			"evaluations":  evals, "distinct_nontrivial": nontriv,
			"rule":                     "bounded back end: each clause's generator counts a case as non-trivial by the rule stated in its domain text; obligations: one per contract clause / panic site / loop invariant step, each possibly several path queries",
			"samples":                  samples,
			"explanation":              ps.Explanation,
			"functions_under_contract": fns,
			"lemmas":                   ps.Lemmas,
			"per_obligation":           perObl,
			"bounded":                  bounded,
			"bounded_cmds":             bcmds,
			"known_findings_printed":   knownPrinted,
			"undecided_contract_drift": undecided,
			"witness_runs":             wreports,
			"solver_timeout_s":         secs,
		}
		if len(bresults) > 0 && nObl == 0 {
			cov["exhaustive"] = exhaustiveAll
		}
		ev := map[string]interface{}{
			"property_id": *prop, "tier": *tier, "seed": seed, "level": ps.Level,
			"coverage": cov, "assumptions": ps.Assumptions, "wall_s": round3(time.Since(t0).Seconds()), "violations": violations,
		}
		if ps.Level == "proof" && nDis != nObl {
			// a proof-level evidence file must not claim more than was discharged
			ev["level"] = "other"
		}
		data, _ := json.MarshalIndent(ev, "", " ")
		os.MkdirAll(filepath.Join(*verif, "evidence"), 0755)
		os.WriteFile(filepath.Join(*verif, "evidence", *prop+".json"), data, 0644)
	}
	fmt.Printf("SUMMARY property=%s tier=%s obligations=%d discharged=%d bounded_evaluations=%d violations=%d known=%d undecided=%d wall=%.1fs\n", *prop, *tier, nObl, nDis, sumEvals(bresults), violations, len(knownPrinted), len(undecided), time.Since(t0).Seconds())
	if violations > 0 {
		return 1
	}
	return 0
}

func sumEvals(rs []BoundedResult) int {
	n := 0
	for _, r := range rs {
		n += r.Evaluations
	}
	return n
}

func round3(f float64) float64 { return float64(int(f*1000)) / 1000 }

func flagSet(fs *flag.FlagSet, name string) bool {
	set := false
	fs.Visit(func(f *flag.Flag) {
		if f.Name == name {
			set = true
		}
	})
	return set
}
