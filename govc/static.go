package main

// Static side conditions checked on the real declarations / SSA on every run.
// They are finite, syntactic obligations (route E in DESIGN.md): each yields
// named obligations that are discharged or failed without a solver.

import (
	"fmt"
	"go/types"
	"reflect"
	"strings"

	"golang.org/x/tools/go/ssa"
)

func (e *Engine) staticResult(name, desc string, ok bool, note string) {
	e.mu.Lock()
	defer e.mu.Unlock()
	o := &Obligation{Name: name, Kind: "static", Desc: desc, Solver: "govc-static"}
	if ok {
		o.Status = "discharged"
	} else {
		o.Status = "failed"
		o.Note = note
	}
	if old, dup := e.obls[name]; dup {
		if old.Status == "failed" {
			return
		}
	} else {
		e.oblOrd = append(e.oblOrd, name)
	}
	e.obls[name] = o
}

func (e *Engine) runStatic(spec string) {
	kind, arg := spec, ""
	if i := strings.Index(spec, ":"); i >= 0 {
		kind, arg = spec[:i], spec[i+1:]
	}
	switch kind {
	case "json-roundtrippable":
		// json-roundtrippable:<pkgpath>.<Type>[;except=Type.Field,...]
		exc := map[string]bool{}
		if i := strings.Index(arg, ";except="); i >= 0 {
			for _, x := range strings.Split(arg[i+len(";except="):], ",") {
				exc[x] = true
			}
			arg = arg[:i]
		}
		e.staticJSON(arg, exc)
	case "map-order":
		e.staticMapOrder(arg)
	case "fresh-result":
		e.staticFreshResult(arg)
	case "writes-own-result":
		e.staticWritesOwn(arg)
	default:
		e.failObligation("static/"+spec, "static", "", "static analysis exists", "unknown static analysis "+kind)
	}
}

func (e *Engine) lookupType(q string) types.Type {
	i := strings.LastIndex(q, ".")
	if i < 0 {
		return nil
	}
	pkg, name := q[:i], q[i+1:]
	if !strings.HasPrefix(pkg, modPath) {
		if pkg == "" || pkg == "." || pkg == "poly" {
			pkg = modPath
		} else {
			pkg = modPath + "/" + pkg
		}
	}
	sp := e.spkgs[pkg]
	if sp == nil {
		return nil
	}
	t := sp.Type(name)
	if t == nil {
		return nil
	}
	return t.Type()
}

// staticJSON checks the side conditions under which encoding/json round-trips a
// value of the type: every field exported, effective JSON names pairwise distinct
// (case-insensitively, as the decoder matches), no field dropped with "-" except
// the listed ones, every field type built from string/int/bool/float,
// map[string]string, slices and structs of the same kind.
func (e *Engine) staticJSON(q string, except map[string]bool) {
	t := e.lookupType(q)
	base := "static/json/" + q
	if t == nil {
		e.staticResult(base, "type exists", false, "type "+q+" not found (contract drift)")
		return
	}
	seen := map[types.Type]bool{}
	var walk func(t types.Type, path string)
	admissible := func(t types.Type) bool { return true }
	_ = admissible
	walk = func(t types.Type, path string) {
		if seen[t] {
			return
		}
		seen[t] = true
		st, ok := t.Underlying().(*types.Struct)
		if !ok {
			return
		}
		tn := path
		names := map[string]string{}
		for i := 0; i < st.NumFields(); i++ {
			f := st.Field(i)
			fq := tn + "." + f.Name()
			tag := reflect.StructTag(st.Tag(i)).Get("json")
			jn := strings.Split(tag, ",")[0]
			if jn == "-" {
				e.staticResult(base+"/"+fq+"/kept", "field is not dropped from the JSON form", except[fq], "field "+fq+" is tagged json:\"-\" and would be lost")
				continue
			}
			e.staticResult(base+"/"+fq+"/exported", "field is exported (visible to encoding/json)", f.Exported(), "field "+fq+" is unexported and would be lost")
			if jn == "" {
				jn = f.Name()
			}
			key := strings.ToLower(jn)
			prev, dup := names[key]
			e.staticResult(base+"/"+fq+"/distinct-name", "effective JSON name is unique among the struct's fields", !dup, fmt.Sprintf("fields %s and %s share the JSON name %q", prev, fq, jn))
			names[key] = fq
			okType, why := jsonAdmissible(f.Type(), map[types.Type]bool{})
			e.staticResult(base+"/"+fq+"/type", "field type round-trips through encoding/json", okType, "field "+fq+": "+why)
			// nested structs
			ft := f.Type()
			for {
				switch u := ft.Underlying().(type) {
				case *types.Slice:
					ft = u.Elem()
					continue
				case *types.Pointer:
					ft = u.Elem()
					continue
				}
				break
			}
			if _, isStruct := ft.Underlying().(*types.Struct); isStruct {
				n := fq
				if nn, ok := ft.(*types.Named); ok {
					n = nn.Obj().Name()
				}
				walk(ft, n)
			}
		}
	}
	n := q
	if nn, ok := t.(*types.Named); ok {
		n = nn.Obj().Name()
	}
	walk(t, n)
}

func jsonAdmissible(t types.Type, seen map[types.Type]bool) (bool, string) {
	if seen[t] {
		return true, ""
	}
	seen[t] = true
	switch u := t.Underlying().(type) {
	case *types.Basic:
		if u.Info()&(types.IsString|types.IsInteger|types.IsBoolean|types.IsFloat) != 0 {
			return true, ""
		}
		return false, "basic type " + u.String() + " is not handled"
	case *types.Slice:
		return jsonAdmissible(u.Elem(), seen)
	case *types.Map:
		if b, ok := u.Key().Underlying().(*types.Basic); !ok || b.Info()&types.IsString == 0 {
			return false, "map key is not a string"
		}
		return jsonAdmissible(u.Elem(), seen)
	case *types.Struct:
		for i := 0; i < u.NumFields(); i++ {
			if reflect.StructTag(u.Tag(i)).Get("json") == "-" {
				continue
			}
			if ok, why := jsonAdmissible(u.Field(i).Type(), seen); !ok {
				return false, why
			}
		}
		return true, ""
	case *types.Pointer:
		return false, "pointer fields do not round-trip by value"
	case *types.Interface:
		return false, "interface fields lose their dynamic type"
	}
	return false, "type " + t.String() + " is not handled"
}

// staticMapOrder: the function's result must not depend on map iteration order.
// Sufficient condition checked on the SSA: every `range` over a map only appends
// its key to one slice variable (order-insensitive otherwise), and that slice is
// passed to sort.Strings / sort.Ints / sort.Slice before anything else reads it.
func (e *Engine) staticMapOrder(fnKey string) {
	full := fnKey
	if strings.HasPrefix(fnKey, "poly.") {
		full = modPath + "." + strings.TrimPrefix(fnKey, "poly.")
	} else if !strings.HasPrefix(full, modPath) {
		full = modPath + "/" + fnKey
	}
	fn := e.lookupFunc(full)
	base := "static/map-order/" + fnKey
	if fn == nil {
		e.staticResult(base, "function exists", false, "function "+fnKey+" not found (contract drift)")
		return
	}
	e.funcsUnderContract[shortKey(full)] = true
	n := 0
	for _, b := range fn.Blocks {
		for _, ins := range b.Instrs {
			rg, ok := ins.(*ssa.Range)
			if !ok {
				continue
			}
			if _, isMap := rg.X.Type().Underlying().(*types.Map); !isMap {
				continue
			}
			n++
			name := fmt.Sprintf("%s/range%d", base, n)
			okk, why := mapRangeIsOrderFree(fn, rg)
			e.staticResult(name, "output does not depend on the iteration order of this map", okk, why)
		}
	}
	e.staticResult(base+"/scanned", "function scanned for map iteration", true, "")
}

func mapRangeIsOrderFree(fn *ssa.Function, rg *ssa.Range) (bool, string) {
	// find the Next and the extracted key
	var keyVals []ssa.Value
	for _, r := range *rg.Referrers() {
		nx, ok := r.(*ssa.Next)
		if !ok {
			continue
		}
		for _, rr := range *nx.Referrers() {
			if ex, ok := rr.(*ssa.Extract); ok && (ex.Index == 1 || ex.Index == 2) {
				keyVals = append(keyVals, ex)
			}
		}
	}
	// every use of key/value: allowed = store into the loop variable, then append to a slice variable
	var collected *ssa.Alloc
	var loopVars []*ssa.Alloc
	for _, kv := range keyVals {
		for _, u := range *kv.Referrers() {
			switch x := u.(type) {
			case *ssa.Store:
				if al, ok := x.Addr.(*ssa.Alloc); ok {
					loopVars = append(loopVars, al)
					continue
				}
				return false, "iteration value escapes through a store"
			case *ssa.DebugRef:
			default:
				return false, fmt.Sprintf("iteration value used directly by %T in iteration order", u)
			}
		}
	}
	for _, lv := range loopVars {
		for _, u := range *lv.Referrers() {
			ld, ok := u.(*ssa.UnOp)
			if !ok {
				continue
			}
			for _, uu := range *ld.Referrers() {
				switch x := uu.(type) {
				case *ssa.DebugRef:
				case *ssa.Store: // into the variadic array of an append
					if ia, ok := x.Addr.(*ssa.IndexAddr); ok {
						if arr, ok := ia.X.(*ssa.Alloc); ok {
							if tgt := appendTarget(arr); tgt != nil {
								if collected != nil && collected != tgt {
									return false, "keys are collected into more than one slice"
								}
								collected = tgt
								continue
							}
						}
					}
					return false, "iteration value stored somewhere other than an append"
				case *ssa.MapUpdate, *ssa.Lookup:
					// writing into / reading from a map by key is order-insensitive
				default:
					return false, fmt.Sprintf("iteration value flows into %T in iteration order", uu)
				}
			}
		}
	}
	if collected == nil {
		return true, ""
	}
	// the collected slice must be sorted before any other read
	sorted := false
	for _, b := range fn.Blocks {
		for _, ins := range b.Instrs {
			c, ok := ins.(*ssa.Call)
			if !ok {
				continue
			}
			callee := c.Call.StaticCallee()
			if callee == nil || callee.Pkg == nil || callee.Pkg.Pkg.Path() != "sort" {
				continue
			}
			// only the library's own total orders count: a caller-supplied comparison (sort.Slice,
			// sort.SliceStable, sort.Sort) may tie on distinct keys and then leaves them in map order
			if callee.Name() != "Strings" && callee.Name() != "Ints" && callee.Name() != "Float64s" {
				continue
			}
			if len(c.Call.Args) > 0 {
				if ld, ok := c.Call.Args[0].(*ssa.UnOp); ok && ld.X == collected {
					sorted = true
				}
				if mi, ok := c.Call.Args[0].(*ssa.MakeInterface); ok {
					if ld, ok := mi.X.(*ssa.UnOp); ok && ld.X == collected {
						sorted = true
					}
				}
			}
		}
	}
	if !sorted {
		name := collected.Comment
		return false, "keys are collected into `" + name + "` in map-iteration order and used without being sorted"
	}
	return true, ""
}

// appendTarget: if arr is the variadic array of `x = append(x, ...)`, the alloc of x.
func appendTarget(arr *ssa.Alloc) *ssa.Alloc {
	for _, r := range *arr.Referrers() {
		sl, ok := r.(*ssa.Slice)
		if !ok {
			continue
		}
		for _, rr := range *sl.Referrers() {
			c, ok := rr.(*ssa.Call)
			if !ok {
				continue
			}
			if b, ok := c.Call.Value.(*ssa.Builtin); !ok || b.Name() != "append" {
				continue
			}
			for _, cr := range *c.Referrers() {
				if st, ok := cr.(*ssa.Store); ok {
					if al, ok := st.Addr.(*ssa.Alloc); ok {
						return al
					}
				}
			}
		}
	}
	return nil
}

// staticFreshResult: every slice reachable from the function's result was
// allocated by this call (directly or by callees that are themselves fresh),
// i.e. no slice header in the result is copied out of a package-level variable.
func (e *Engine) staticFreshResult(fnKey string) {
	full := fnKey
	if strings.HasPrefix(fnKey, "poly.") {
		full = modPath + "." + strings.TrimPrefix(fnKey, "poly.")
	} else if !strings.HasPrefix(full, modPath) {
		full = modPath + "/" + fnKey
	}
	fn := e.lookupFunc(full)
	base := "static/fresh-result/" + fnKey
	if fn == nil {
		e.staticResult(base, "function exists", false, "function "+fnKey+" not found (contract drift)")
		return
	}
	e.funcsUnderContract[shortKey(full)] = true
	hasSlices := typeHasSlice(fn.Signature.Results(), map[types.Type]bool{})
	for _, b := range fn.Blocks {
		for _, ins := range b.Instrs {
			ret, ok := ins.(*ssa.Return)
			if !ok {
				continue
			}
			for i, r := range ret.Results {
				src, bad := globalOrigin(r, map[ssa.Value]bool{})
				okk := !(bad && hasSlices)
				e.staticResult(fmt.Sprintf("%s/result%d", base, i), "slices in the result are not shared with package-level state", okk,
					"the returned value is copied out of package-level variable "+src+" without copying the slices it contains: callers share (and can write) its backing arrays")
			}
		}
	}
}

func typeHasSlice(t types.Type, seen map[types.Type]bool) bool {
	if seen[t] {
		return false
	}
	seen[t] = true
	switch u := t.Underlying().(type) {
	case *types.Slice:
		return true
	case *types.Struct:
		for i := 0; i < u.NumFields(); i++ {
			if typeHasSlice(u.Field(i).Type(), seen) {
				return true
			}
		}
	case *types.Tuple:
		for i := 0; i < u.Len(); i++ {
			if typeHasSlice(u.At(i).Type(), seen) {
				return true
			}
		}
	case *types.Map:
		return true
	}
	return false
}

// globalOrigin follows loads / lookups / field selections back to a package-level variable.
func globalOrigin(v ssa.Value, seen map[ssa.Value]bool) (string, bool) {
	if seen[v] {
		return "", false
	}
	seen[v] = true
	switch x := v.(type) {
	case *ssa.Global:
		return x.Name(), true
	case *ssa.UnOp:
		if al, ok := x.X.(*ssa.Alloc); ok {
			// value of a local: any store into it
			for _, r := range *al.Referrers() {
				if st, ok := r.(*ssa.Store); ok && st.Addr == al {
					if s, bad := globalOrigin(st.Val, seen); bad {
						return s, true
					}
				}
			}
			return "", false
		}
		return globalOrigin(x.X, seen)
	case *ssa.Lookup:
		return globalOrigin(x.X, seen)
	case *ssa.Field:
		return globalOrigin(x.X, seen)
	case *ssa.FieldAddr:
		return globalOrigin(x.X, seen)
	case *ssa.IndexAddr:
		return globalOrigin(x.X, seen)
	case *ssa.Extract:
		return globalOrigin(x.Tuple, seen)
	case *ssa.ChangeType:
		return globalOrigin(x.X, seen)
	case *ssa.Phi:
		for _, ed := range x.Edges {
			if s, bad := globalOrigin(ed, seen); bad {
				return s, true
			}
		}
	}
	return "", false
}

// staticWritesOwn: every heap store of the method goes through its receiver/
// parameter value (so, with fresh-result on the producers of that value, it can
// only write storage owned by the value it was given and returns).
func (e *Engine) staticWritesOwn(fnKey string) {
	full := fnKey
	if strings.HasPrefix(fnKey, "poly.") {
		full = modPath + "." + strings.TrimPrefix(fnKey, "poly.")
	} else if !strings.HasPrefix(full, modPath) {
		full = modPath + "/" + fnKey
	}
	fn := e.lookupFunc(full)
	base := "static/writes-own-result/" + fnKey
	if fn == nil {
		e.staticResult(base, "function exists", false, "function "+fnKey+" not found (contract drift)")
		return
	}
	e.funcsUnderContract[shortKey(full)] = true
	n := 0
	for _, b := range fn.Blocks {
		for _, ins := range b.Instrs {
			st, ok := ins.(*ssa.Store)
			if !ok {
				continue
			}
			if _, isLocal := st.Addr.(*ssa.Alloc); isLocal {
				continue
			}
			n++
			_, viaGlobal := globalOrigin(st.Addr, map[ssa.Value]bool{})
			e.staticResult(fmt.Sprintf("%s/store%d", base, n), "store does not go through a package-level variable", !viaGlobal, "the function writes through package-level state")
		}
	}
	e.staticResult(base+"/scanned", "function scanned for heap stores", true, "")
}
