package main

// Static side conditions checked on the real declarations / SSA on every run.
// They are finite, syntactic obligations (route E in DESIGN.md): each yields
// named obligations that are discharged or failed without a solver.

import (
	"fmt"
	"go/token"
	"go/types"
	"reflect"
	"strings"

	"golang.org/x/tools/go/ssa"
)

func (e *Engine) staticResult(name, desc string, ok bool, note string) {
	e.mu.Lock()
	defer e.mu.Unlock()
	o := &Obligation{Name: name, Kind: "static", Desc: desc, Solver: "govc-static"}
	if ok {
		o.Status = "discharged"
	} else {
		o.Status = "failed"
		o.Note = note
	}
	if old, dup := e.obls[name]; dup {
		if old.Status == "failed" {
			return
		}
	} else {
		e.oblOrd = append(e.oblOrd, name)
	}
	e.obls[name] = o
}

func (e *Engine) runStatic(spec string) {
	kind, arg := spec, ""
	if i := strings.Index(spec, ":"); i >= 0 {
		kind, arg = spec[:i], spec[i+1:]
	}
	switch kind {
	case "json-roundtrippable":
		// json-roundtrippable:<pkgpath>.<Type>[;except=Type.Field,...]
		exc := map[string]bool{}
		if i := strings.Index(arg, ";except="); i >= 0 {
			for _, x := range strings.Split(arg[i+len(";except="):], ",") {
				exc[x] = true
			}
			arg = arg[:i]
		}
		e.staticJSON(arg, exc)
	case "map-order":
		e.staticMapOrder(arg)
	case "fresh-result":
		e.staticFreshResult(arg)
	case "writes-own-result":
		e.staticWritesOwn(arg)
	case "deterministic":
		e.staticDeterministic(arg)
	default:
		e.failObligation("static/"+spec, "static", "", "static analysis exists", "unknown static analysis "+kind)
	}
}

func (e *Engine) lookupType(q string) types.Type {
	i := strings.LastIndex(q, ".")
	if i < 0 {
		return nil
	}
	pkg, name := q[:i], q[i+1:]
	if !strings.HasPrefix(pkg, modPath) {
		if pkg == "" || pkg == "." || pkg == "poly" {
			pkg = modPath
		} else {
			pkg = modPath + "/" + pkg
		}
	}
	sp := e.spkgs[pkg]
	if sp == nil {
		return nil
	}
	t := sp.Type(name)
	if t == nil {
		return nil
	}
	return t.Type()
}

// staticJSON checks the side conditions under which encoding/json round-trips a
// value of the type: every field exported, effective JSON names pairwise distinct
// (case-insensitively, as the decoder matches), no field dropped with "-" except
// the listed ones, every field type built from string/int/bool/float,
// map[string]string, slices and structs of the same kind.
func (e *Engine) staticJSON(q string, except map[string]bool) {
	t := e.lookupType(q)
	base := "static/json/" + q
	if t == nil {
		e.staticResult(base, "type exists", false, "type "+q+" not found (contract drift)")
		return
	}
	seen := map[types.Type]bool{}
	var walk func(t types.Type, path string)
	admissible := func(t types.Type) bool { return true }
	_ = admissible
	walk = func(t types.Type, path string) {
		if seen[t] {
			return
		}
		seen[t] = true
		st, ok := t.Underlying().(*types.Struct)
		if !ok {
			return
		}
		tn := path
		names := map[string]string{}
		for i := 0; i < st.NumFields(); i++ {
			f := st.Field(i)
			fq := tn + "." + f.Name()
			tag := reflect.StructTag(st.Tag(i)).Get("json")
			jn := strings.Split(tag, ",")[0]
			if jn == "-" {
				e.staticResult(base+"/"+fq+"/kept", "field is not dropped from the JSON form", except[fq], "field "+fq+" is tagged json:\"-\" and would be lost")
				continue
			}
			e.staticResult(base+"/"+fq+"/exported", "field is exported (visible to encoding/json)", f.Exported(), "field "+fq+" is unexported and would be lost")
			if jn == "" {
				jn = f.Name()
			}
			key := strings.ToLower(jn)
			prev, dup := names[key]
			e.staticResult(base+"/"+fq+"/distinct-name", "effective JSON name is unique among the struct's fields", !dup, fmt.Sprintf("fields %s and %s share the JSON name %q", prev, fq, jn))
			names[key] = fq
			okType, why := jsonAdmissible(f.Type(), map[types.Type]bool{})
			e.staticResult(base+"/"+fq+"/type", "field type round-trips through encoding/json", okType, "field "+fq+": "+why)
			// nested structs
			ft := f.Type()
			for {
				switch u := ft.Underlying().(type) {
				case *types.Slice:
					ft = u.Elem()
					continue
				case *types.Pointer:
					ft = u.Elem()
					continue
				}
				break
			}
			if _, isStruct := ft.Underlying().(*types.Struct); isStruct {
				n := fq
				if nn, ok := ft.(*types.Named); ok {
					n = nn.Obj().Name()
				}
				walk(ft, n)
			}
		}
	}
	n := q
	if nn, ok := t.(*types.Named); ok {
		n = nn.Obj().Name()
	}
	walk(t, n)
}

func jsonAdmissible(t types.Type, seen map[types.Type]bool) (bool, string) {
	if seen[t] {
		return true, ""
	}
	seen[t] = true
	switch u := t.Underlying().(type) {
	case *types.Basic:
		if u.Info()&(types.IsString|types.IsInteger|types.IsBoolean|types.IsFloat) != 0 {
			return true, ""
		}
		return false, "basic type " + u.String() + " is not handled"
	case *types.Slice:
		return jsonAdmissible(u.Elem(), seen)
	case *types.Map:
		if b, ok := u.Key().Underlying().(*types.Basic); !ok || b.Info()&types.IsString == 0 {
			return false, "map key is not a string"
		}
		return jsonAdmissible(u.Elem(), seen)
	case *types.Struct:
		for i := 0; i < u.NumFields(); i++ {
			if reflect.StructTag(u.Tag(i)).Get("json") == "-" {
				continue
			}
			if ok, why := jsonAdmissible(u.Field(i).Type(), seen); !ok {
				return false, why
			}
		}
		return true, ""
	case *types.Pointer:
		return false, "pointer fields do not round-trip by value"
	case *types.Interface:
		return false, "interface fields lose their dynamic type"
	}
	return false, "type " + t.String() + " is not handled"
}

// staticMapOrder: the function's result must not depend on map iteration order.
// Sufficient condition checked on the SSA: every `range` over a map only appends
// its key to one slice variable (order-insensitive otherwise), and that slice is
// passed to sort.Strings / sort.Ints / sort.Slice before anything else reads it.
func (e *Engine) staticMapOrder(fnKey string) {
	full := fnKey
	if strings.HasPrefix(fnKey, "poly.") {
		full = modPath + "." + strings.TrimPrefix(fnKey, "poly.")
	} else if !strings.HasPrefix(full, modPath) {
		full = modPath + "/" + fnKey
	}
	fn := e.lookupFunc(full)
	base := "static/map-order/" + fnKey
	if fn == nil {
		e.staticResult(base, "function exists", false, "function "+fnKey+" not found (contract drift)")
		return
	}
	e.funcsUnderContract[shortKey(full)] = true
	n := 0
	for _, b := range fn.Blocks {
		for _, ins := range b.Instrs {
			rg, ok := ins.(*ssa.Range)
			if !ok {
				continue
			}
			if _, isMap := rg.X.Type().Underlying().(*types.Map); !isMap {
				continue
			}
			n++
			name := fmt.Sprintf("%s/range%d", base, n)
			okk, why := mapRangeIsOrderFree(fn, rg)
			e.staticResult(name, "output does not depend on the iteration order of this map", okk, why)
		}
	}
	e.staticResult(base+"/scanned", "function scanned for map iteration", true, "")
}

func mapRangeIsOrderFree(fn *ssa.Function, rg *ssa.Range) (bool, string) {
	// find the Next and the extracted key
	var keyVals []ssa.Value
	for _, r := range *rg.Referrers() {
		nx, ok := r.(*ssa.Next)
		if !ok {
			continue
		}
		for _, rr := range *nx.Referrers() {
			if ex, ok := rr.(*ssa.Extract); ok && (ex.Index == 1 || ex.Index == 2) {
				keyVals = append(keyVals, ex)
			}
		}
	}
	// every use of key/value: allowed = store into the loop variable, then append to a slice variable
	var collected *ssa.Alloc
	var loopVars []*ssa.Alloc
	for _, kv := range keyVals {
		for _, u := range *kv.Referrers() {
			switch x := u.(type) {
			case *ssa.Store:
				if al, ok := x.Addr.(*ssa.Alloc); ok {
					loopVars = append(loopVars, al)
					continue
				}
				return false, "iteration value escapes through a store"
			case *ssa.DebugRef:
			default:
				return false, fmt.Sprintf("iteration value used directly by %T in iteration order", u)
			}
		}
	}
	for _, lv := range loopVars {
		for _, u := range *lv.Referrers() {
			ld, ok := u.(*ssa.UnOp)
			if !ok {
				continue
			}
			for _, uu := range *ld.Referrers() {
				switch x := uu.(type) {
				case *ssa.DebugRef:
				case *ssa.Store: // into the variadic array of an append
					if ia, ok := x.Addr.(*ssa.IndexAddr); ok {
						if arr, ok := ia.X.(*ssa.Alloc); ok {
							if tgt := appendTarget(arr); tgt != nil {
								if collected != nil && collected != tgt {
									return false, "keys are collected into more than one slice"
								}
								collected = tgt
								continue
							}
						}
					}
					return false, "iteration value stored somewhere other than an append"
				case *ssa.MapUpdate, *ssa.Lookup:
					// writing into / reading from a map by key is order-insensitive
				default:
					return false, fmt.Sprintf("iteration value flows into %T in iteration order", uu)
				}
			}
		}
	}
	if collected == nil {
		return true, ""
	}
	// the collected slice must be sorted before any other read
	sorted := false
	for _, b := range fn.Blocks {
		for _, ins := range b.Instrs {
			c, ok := ins.(*ssa.Call)
			if !ok {
				continue
			}
			callee := c.Call.StaticCallee()
			if callee == nil || callee.Pkg == nil || callee.Pkg.Pkg.Path() != "sort" {
				continue
			}
			// only the library's own total orders count: a caller-supplied comparison (sort.Slice,
			// sort.SliceStable, sort.Sort) may tie on distinct keys and then leaves them in map order
			if callee.Name() != "Strings" && callee.Name() != "Ints" && callee.Name() != "Float64s" {
				continue
			}
			if len(c.Call.Args) > 0 {
				if ld, ok := c.Call.Args[0].(*ssa.UnOp); ok && ld.X == collected {
					sorted = true
				}
				if mi, ok := c.Call.Args[0].(*ssa.MakeInterface); ok {
					if ld, ok := mi.X.(*ssa.UnOp); ok && ld.X == collected {
						sorted = true
					}
				}
			}
		}
	}
	if !sorted {
		name := collected.Comment
		return false, "keys are collected into `" + name + "` in map-iteration order and used without being sorted"
	}
	return true, ""
}

// appendTarget: if arr is the variadic array of `x = append(x, ...)`, the alloc of x.
func appendTarget(arr *ssa.Alloc) *ssa.Alloc {
	for _, r := range *arr.Referrers() {
		sl, ok := r.(*ssa.Slice)
		if !ok {
			continue
		}
		for _, rr := range *sl.Referrers() {
			c, ok := rr.(*ssa.Call)
			if !ok {
				continue
			}
			if b, ok := c.Call.Value.(*ssa.Builtin); !ok || b.Name() != "append" {
				continue
			}
			for _, cr := range *c.Referrers() {
				if st, ok := cr.(*ssa.Store); ok {
					if al, ok := st.Addr.(*ssa.Alloc); ok {
						return al
					}
				}
			}
		}
	}
	return nil
}

// staticFreshResult: every slice reachable from the function's result was
// allocated by this call (directly or by callees that are themselves fresh),
// i.e. no slice header in the result is copied out of a package-level variable.
func (e *Engine) staticFreshResult(fnKey string) {
	full := fnKey
	if strings.HasPrefix(fnKey, "poly.") {
		full = modPath + "." + strings.TrimPrefix(fnKey, "poly.")
	} else if !strings.HasPrefix(full, modPath) {
		full = modPath + "/" + fnKey
	}
	fn := e.lookupFunc(full)
	base := "static/fresh-result/" + fnKey
	if fn == nil {
		e.staticResult(base, "function exists", false, "function "+fnKey+" not found (contract drift)")
		return
	}
	e.funcsUnderContract[shortKey(full)] = true
	hasSlices := typeHasSlice(fn.Signature.Results(), map[types.Type]bool{})
	for _, b := range fn.Blocks {
		for _, ins := range b.Instrs {
			ret, ok := ins.(*ssa.Return)
			if !ok {
				continue
			}
			for i, r := range ret.Results {
				src, bad := globalOrigin(r, map[ssa.Value]bool{})
				okk := !(bad && hasSlices)
				e.staticResult(fmt.Sprintf("%s/result%d", base, i), "slices in the result are not shared with package-level state", okk,
					"the returned value is copied out of package-level variable "+src+" without copying the slices it contains: callers share (and can write) its backing arrays")
			}
		}
	}
}

func typeHasSlice(t types.Type, seen map[types.Type]bool) bool {
	if seen[t] {
		return false
	}
	seen[t] = true
	switch u := t.Underlying().(type) {
	case *types.Slice:
		return true
	case *types.Struct:
		for i := 0; i < u.NumFields(); i++ {
			if typeHasSlice(u.Field(i).Type(), seen) {
				return true
			}
		}
	case *types.Tuple:
		for i := 0; i < u.Len(); i++ {
			if typeHasSlice(u.At(i).Type(), seen) {
				return true
			}
		}
	case *types.Map:
		return true
	}
	return false
}

// globalOrigin follows loads / lookups / field selections back to a package-level variable.
func globalOrigin(v ssa.Value, seen map[ssa.Value]bool) (string, bool) {
	if seen[v] {
		return "", false
	}
	seen[v] = true
	switch x := v.(type) {
	case *ssa.Global:
		return x.Name(), true
	case *ssa.UnOp:
		if al, ok := x.X.(*ssa.Alloc); ok {
			// value of a local: any store into it
			for _, r := range *al.Referrers() {
				if st, ok := r.(*ssa.Store); ok && st.Addr == al {
					if s, bad := globalOrigin(st.Val, seen); bad {
						return s, true
					}
				}
			}
			return "", false
		}
		return globalOrigin(x.X, seen)
	case *ssa.Lookup:
		return globalOrigin(x.X, seen)
	case *ssa.Field:
		return globalOrigin(x.X, seen)
	case *ssa.FieldAddr:
		return globalOrigin(x.X, seen)
	case *ssa.IndexAddr:
		return globalOrigin(x.X, seen)
	case *ssa.Extract:
		return globalOrigin(x.Tuple, seen)
	case *ssa.ChangeType:
		return globalOrigin(x.X, seen)
	case *ssa.Phi:
		for _, ed := range x.Edges {
			if s, bad := globalOrigin(ed, seen); bad {
				return s, true
			}
		}
	}
	return "", false
}

// staticWritesOwn: every heap store of the method goes through its receiver/
// parameter value (so, with fresh-result on the producers of that value, it can
// only write storage owned by the value it was given and returns).
func (e *Engine) staticWritesOwn(fnKey string) {
	full := fnKey
	if strings.HasPrefix(fnKey, "poly.") {
		full = modPath + "." + strings.TrimPrefix(fnKey, "poly.")
	} else if !strings.HasPrefix(full, modPath) {
		full = modPath + "/" + fnKey
	}
	fn := e.lookupFunc(full)
	base := "static/writes-own-result/" + fnKey
	if fn == nil {
		e.staticResult(base, "function exists", false, "function "+fnKey+" not found (contract drift)")
		return
	}
	e.funcsUnderContract[shortKey(full)] = true
	n := 0
	for _, b := range fn.Blocks {
		for _, ins := range b.Instrs {
			st, ok := ins.(*ssa.Store)
			if !ok {
				continue
			}
			if _, isLocal := st.Addr.(*ssa.Alloc); isLocal {
				continue
			}
			n++
			_, viaGlobal := globalOrigin(st.Addr, map[ssa.Value]bool{})
			e.staticResult(fmt.Sprintf("%s/store%d", base, n), "store does not go through a package-level variable", !viaGlobal, "the function writes through package-level state")
		}
	}
	e.staticResult(base+"/scanned", "function scanned for heap stores", true, "")
}

// ---- static/deterministic: the result is a function of the arguments ----
//
// Syntactic sufficient condition over the SSA of the function, its closures and (transitively)
// the module functions it calls: no goroutines, channels or select; no range over a map; no
// read or write of package-level state other than scalars written only by their initialiser;
// no interface method calls; library calls only into packages whose functions are pure
// functions of their arguments (bytes, strings, strconv, unicode, utf8, math, sort, errors).
// Function values may only be called when the function takes no function-typed parameter, so
// every callee is a closure created by the function itself and is scanned with it.
var deterministicPkgs = map[string]bool{"bytes": true, "strings": true, "strconv": true, "unicode": true, "unicode/utf8": true,
	"math": true, "sort": true, "errors": true, "regexp": true, "regexp/syntax": true, "log": true, "encoding/hex": true, "lukechampine.com/blake3": true}

func (e *Engine) staticDeterministic(fnKey string) {
	full := fnKey
	if strings.HasPrefix(fnKey, "poly.") {
		full = modPath + "." + strings.TrimPrefix(fnKey, "poly.")
	} else if !strings.HasPrefix(full, modPath) {
		full = modPath + "/" + fnKey
	}
	fn := e.lookupFunc(full)
	base := "static/deterministic/" + fnKey
	if fn == nil {
		e.staticResult(base, "function exists", false, "function "+fnKey+" not found (contract drift)")
		return
	}
	e.funcsUnderContract[shortKey(full)] = true
	seen := map[*ssa.Function]bool{}
	var why []string
	var scan func(f *ssa.Function)
	bad := func(f *ssa.Function, ins ssa.Instruction, msg string) {
		if len(why) < 6 {
			why = append(why, fmt.Sprintf("%s: %s (%s)", f.Name(), msg, e.prog.Fset.Position(ins.Pos())))
		}
	}
	scan = func(f *ssa.Function) {
		if seen[f] {
			return
		}
		seen[f] = true
		if f.Blocks == nil {
			why = append(why, f.String()+": no body")
			return
		}
		ps := f.Signature.Params()
		hasFuncParam := false
		for i := 0; i < ps.Len(); i++ {
			if typeHasFunc(ps.At(i).Type(), map[types.Type]bool{}) {
				hasFuncParam = true
			}
		}
		for _, b := range f.Blocks {
			for _, ins := range b.Instrs {
				for _, op := range ins.Operands(nil) {
					if g, ok := (*op).(*ssa.Global); ok {
						if !e.globalScalarInitOnly(g) {
							bad(f, ins, "uses package-level variable "+g.Name())
						}
					}
				}
				switch x := ins.(type) {
				case *ssa.Go:
					bad(f, ins, "starts a goroutine")
				case *ssa.Select:
					bad(f, ins, "select")
				case *ssa.Send:
					bad(f, ins, "channel send")
				case *ssa.MakeChan:
					bad(f, ins, "makes a channel")
				case *ssa.UnOp:
					if x.Op == token.ARROW {
						bad(f, ins, "channel receive")
					}
				case *ssa.Range:
					if _, isMap := x.X.Type().Underlying().(*types.Map); isMap {
						bad(f, ins, "ranges over a map")
					}
				case *ssa.MakeClosure:
					if af, ok := x.Fn.(*ssa.Function); ok {
						scan(af)
					}
				case ssa.CallInstruction:
					c := x.Common()
					if c.IsInvoke() {
						bad(f, ins, "interface method call "+c.Method.Name())
						continue
					}
					if _, isB := c.Value.(*ssa.Builtin); isB {
						continue
					}
					callee := c.StaticCallee()
					if callee == nil {
						if hasFuncParam {
							bad(f, ins, "calls a function value and takes function-typed parameters")
						}
						continue
					}
					if callee.Pkg != nil && strings.HasPrefix(callee.Pkg.Pkg.Path(), modPath) || callee.Parent() != nil {
						scan(callee)
						continue
					}
					pp := ""
					if callee.Pkg != nil {
						pp = callee.Pkg.Pkg.Path()
					} else if callee.Signature.Recv() != nil {
						// method of an instantiated/library type
						if n, ok := deref(callee.Signature.Recv().Type()).(*types.Named); ok && n.Obj().Pkg() != nil {
							pp = n.Obj().Pkg().Path()
						}
					}
					if !deterministicPkgs[pp] {
						bad(f, ins, "calls "+callee.String())
					}
				}
			}
		}
	}
	scan(fn)
	e.staticResult(base, "the result depends on the arguments only (no package state, map order, channels, goroutines, clocks or random sources)", len(why) == 0, strings.Join(why, "; "))
}

func typeHasFunc(t types.Type, seen map[types.Type]bool) bool {
	if seen[t] {
		return false
	}
	seen[t] = true
	switch u := t.Underlying().(type) {
	case *types.Signature:
		return true
	case *types.Slice:
		return typeHasFunc(u.Elem(), seen)
	case *types.Array:
		return typeHasFunc(u.Elem(), seen)
	case *types.Pointer:
		return typeHasFunc(u.Elem(), seen)
	case *types.Map:
		return typeHasFunc(u.Key(), seen) || typeHasFunc(u.Elem(), seen)
	case *types.Struct:
		for i := 0; i < u.NumFields(); i++ {
			if typeHasFunc(u.Field(i).Type(), seen) {
				return true
			}
		}
	case *types.Interface:
		return true
	}
	return false
}

// globalScalarInitOnly: package-level state that is as good as a constant: only the package
// initialiser writes the variable, and what it holds is never written, handed to code that
// could write it, or allowed to escape (checked over every function of its package).
func (e *Engine) globalScalarInitOnly(g *ssa.Global) bool {
	e.mu.Lock()
	if e.constGlobals == nil {
		e.constGlobals = map[*ssa.Global]bool{}
	}
	v, ok := e.constGlobals[g]
	e.mu.Unlock()
	if ok {
		return v
	}
	v = e.globalEffectivelyConst(g)
	e.mu.Lock()
	e.constGlobals[g] = v
	e.mu.Unlock()
	return v
}

func (e *Engine) globalEffectivelyConst(g *ssa.Global) bool {
	var fns []*ssa.Function
	var addAnon func(f *ssa.Function)
	addAnon = func(f *ssa.Function) {
		fns = append(fns, f)
		for _, a := range f.AnonFuncs {
			addAnon(a)
		}
	}
	for _, m := range g.Pkg.Members {
		switch x := m.(type) {
		case *ssa.Function:
			addAnon(x)
		case *ssa.Type:
			for _, t := range []types.Type{x.Type(), types.NewPointer(x.Type())} {
				ms := e.prog.MethodSets.MethodSet(t)
				for i := 0; i < ms.Len(); i++ {
					if f := e.prog.MethodValue(ms.At(i)); f != nil && f.Pkg == g.Pkg {
						addAnon(f)
					}
				}
			}
		}
	}
	_, scalar := scalarSort(deref(g.Type()))
	immutablePointee := func(t types.Type) bool {
		// values documented as immutable after construction
		s := t.String()
		return s == "*regexp.Regexp" || s == "error" || s == "*errors.errorString"
	}
	for _, f := range fns {
		inInit := f.Name() == "init" && f.Parent() == nil
		for _, b := range f.Blocks {
			for _, ins := range b.Instrs {
				if st, ok := ins.(*ssa.Store); ok && st.Addr == g && !inInit {
					return false
				}
			}
		}
		if inInit || scalar {
			continue
		}
		// follow what is read out of g
		derived := map[ssa.Value]bool{}
		var work []ssa.Value
		add := func(v ssa.Value) {
			if !derived[v] {
				derived[v] = true
				work = append(work, v)
			}
		}
		for _, b := range f.Blocks {
			for _, ins := range b.Instrs {
				for _, op := range ins.Operands(nil) {
					if *op == ssa.Value(g) {
						if v, ok := ins.(ssa.Value); ok {
							add(v)
						} else {
							return false
						}
					}
				}
			}
		}
		for len(work) > 0 {
			v := work[len(work)-1]
			work = work[:len(work)-1]
			if _, sc := scalarSort(v.Type()); sc {
				continue // a scalar read out of it carries no reference
			}
			if immutablePointee(v.Type()) {
				continue
			}
			refs := v.Referrers()
			if refs == nil {
				continue
			}
			for _, r := range *refs {
				switch x := r.(type) {
				case *ssa.UnOp, *ssa.Index, *ssa.Field, *ssa.Lookup, *ssa.Extract, *ssa.Next, *ssa.Phi, *ssa.Slice, *ssa.TypeAssert, *ssa.ChangeType:
					add(x.(ssa.Value))
				case *ssa.IndexAddr:
					add(x)
				case *ssa.FieldAddr:
					add(x)
				case *ssa.Range:
					add(x)
				case *ssa.BinOp, *ssa.If, *ssa.DebugRef:
				case *ssa.Convert:
					if _, sc := scalarSort(x.Type()); !sc {
						return false
					}
				case *ssa.MakeInterface:
					if !immutablePointee(x.X.Type()) {
						return false
					}
				case *ssa.Store:
					return false // written through, or escapes into other storage
				case *ssa.MapUpdate:
					return false
				case ssa.CallInstruction:
					c := x.Common()
					if bi, ok := c.Value.(*ssa.Builtin); ok && (bi.Name() == "len" || bi.Name() == "cap") {
						continue
					}
					callee := c.StaticCallee()
					if callee != nil && callee.Pkg != nil && deterministicPkgs[callee.Pkg.Pkg.Path()] && callee.Pkg.Pkg.Path() != "sort" && callee.Pkg.Pkg.Path() != "bytes" {
						continue
					}
					if callee != nil && callee.Signature.Recv() != nil && immutablePointee(callee.Signature.Recv().Type()) {
						continue
					}
					return false
				default:
					return false
				}
			}
		}
	}
	return true
}

func typeHasRef(t types.Type, seen map[types.Type]bool) bool {
	if seen[t] {
		return false
	}
	seen[t] = true
	switch u := t.Underlying().(type) {
	case *types.Basic:
		return false
	case *types.Array:
		return typeHasRef(u.Elem(), seen)
	case *types.Struct:
		for i := 0; i < u.NumFields(); i++ {
			if typeHasRef(u.Field(i).Type(), seen) {
				return true
			}
		}
		return false
	}
	return true
}
