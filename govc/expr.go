package main

// Contract expression language: a small Pratt parser. Syntax is Go's
// expression syntax plus `==>`, `<==>`, `forall x T, y T :: e`,
// `exists ...`, `old(e)`, `(c ? a : b)`, and optional trigger sets
// `forall i int {f(i)} {g(i), h(i)} :: e`.

import (
	"fmt"
	"strconv"
	"strings"
	"unicode"
)

type CExpr interface{}

type CIdent struct{ Name string }
type CInt struct{ V string }
type CReal struct{ V string }
type CStr struct{ V string }
type CBool struct{ V bool }
type CUnary struct {
	Op string
	X  CExpr
}
type CBinary struct {
	Op   string
	X, Y CExpr
}
type CCall struct {
	Fn   string
	Args []CExpr
}
type CIndex struct{ X, I CExpr }
type CSlice struct{ X, Lo, Hi CExpr }
type CSel struct {
	X    CExpr
	Name string
}
type CVar struct{ Name, Type string }
type CQuant struct {
	Forall   bool
	Vars     []CVar
	Triggers [][]CExpr
	Body     CExpr
}
type CIte struct{ C, A, B CExpr }

type tok struct {
	kind string // id, int, real, str, char, op, eof
	s    string
	pos  int
}

type lexer struct {
	src  string
	toks []tok
	p    int
}

var ops3 = []string{"<==>", "==>", "&&", "||", "==", "!=", "<=", ">=", "::", "..."}

func lex(src string) ([]tok, error) {
	var out []tok
	i := 0
	for i < len(src) {
		c := src[i]
		if c == ' ' || c == '\t' || c == '\n' || c == '\r' {
			i++
			continue
		}
		if c == '_' || c == '$' || unicode.IsLetter(rune(c)) {
			j := i + 1
			for j < len(src) && (src[j] == '_' || src[j] == '$' || unicode.IsLetter(rune(src[j])) || unicode.IsDigit(rune(src[j]))) {
				j++
			}
			out = append(out, tok{"id", src[i:j], i})
			i = j
			continue
		}
		if unicode.IsDigit(rune(c)) {
			j := i
			isReal := false
			for j < len(src) && (unicode.IsDigit(rune(src[j])) || src[j] == '.' || src[j] == 'e' || src[j] == 'E' || ((src[j] == '-' || src[j] == '+') && (src[j-1] == 'e' || src[j-1] == 'E'))) {
				if src[j] == '.' {
					if j+1 < len(src) && src[j+1] == '.' {
						break
					}
					isReal = true
				}
				if src[j] == 'e' || src[j] == 'E' {
					isReal = true
				}
				j++
			}
			if isReal {
				out = append(out, tok{"real", src[i:j], i})
			} else {
				out = append(out, tok{"int", src[i:j], i})
			}
			i = j
			continue
		}
		if c == '"' {
			j := i + 1
			for j < len(src) && src[j] != '"' {
				if src[j] == '\\' {
					j++
				}
				j++
			}
			if j >= len(src) {
				return nil, fmt.Errorf("unterminated string at %d", i)
			}
			s, err := strconv.Unquote(src[i : j+1])
			if err != nil {
				return nil, fmt.Errorf("bad string literal %s", src[i:j+1])
			}
			out = append(out, tok{"str", s, i})
			i = j + 1
			continue
		}
		if c == '\'' {
			j := i + 1
			for j < len(src) && src[j] != '\'' {
				if src[j] == '\\' {
					j++
				}
				j++
			}
			if j >= len(src) {
				return nil, fmt.Errorf("unterminated char at %d", i)
			}
			r, _, _, err := strconv.UnquoteChar(src[i+1:j], '\'')
			if err != nil {
				return nil, fmt.Errorf("bad char literal %s", src[i:j+1])
			}
			out = append(out, tok{"int", strconv.Itoa(int(r)), i})
			i = j + 1
			continue
		}
		matched := false
		for _, o := range ops3 {
			if strings.HasPrefix(src[i:], o) {
				out = append(out, tok{"op", o, i})
				i += len(o)
				matched = true
				break
			}
		}
		if matched {
			continue
		}
		out = append(out, tok{"op", string(c), i})
		i++
	}
	out = append(out, tok{"eof", "", len(src)})
	return out, nil
}

type cparser struct {
	toks []tok
	p    int
	src  string
}

func ParseCExpr(src string) (e CExpr, err error) {
	toks, err := lex(src)
	if err != nil {
		return nil, err
	}
	p := &cparser{toks: toks, src: src}
	defer func() {
		if r := recover(); r != nil {
			if pe, ok := r.(parseErr); ok {
				err = fmt.Errorf("%s in %q", string(pe), src)
				return
			}
			panic(r)
		}
	}()
	e = p.expr(0)
	if p.peek().kind != "eof" {
		p.fail("unexpected %q", p.peek().s)
	}
	return e, nil
}

type parseErr string

func (p *cparser) fail(f string, a ...interface{}) {
	panic(parseErr(fmt.Sprintf(f, a...) + fmt.Sprintf(" at offset %d", p.peek().pos)))
}
func (p *cparser) peek() tok { return p.toks[p.p] }
func (p *cparser) next() tok { t := p.toks[p.p]; p.p++; return t }
func (p *cparser) isOp(s string) bool {
	t := p.peek()
	return t.kind == "op" && t.s == s
}
func (p *cparser) expectOp(s string) {
	if !p.isOp(s) {
		p.fail("expected %q, got %q", s, p.peek().s)
	}
	p.next()
}

var binPrec = map[string]int{
	"<==>": 1, "==>": 2, "||": 3, "&&": 4,
	"==": 5, "!=": 5, "<": 5, "<=": 5, ">": 5, ">=": 5,
	"+": 6, "-": 6, "*": 7, "/": 7, "%": 7,
}

func (p *cparser) expr(minPrec int) CExpr {
	lhs := p.unary()
	for {
		t := p.peek()
		if t.kind != "op" {
			break
		}
		prec, ok := binPrec[t.s]
		if !ok || prec < minPrec {
			break
		}
		p.next()
		var rhs CExpr
		if t.s == "==>" {
			rhs = p.expr(prec) // right assoc
		} else {
			rhs = p.expr(prec + 1)
		}
		lhs = &CBinary{t.s, lhs, rhs}
	}
	// ternary
	if minPrec == 0 && p.isOp("?") {
		p.next()
		a := p.expr(0)
		p.expectOp(":")
		b := p.expr(0)
		lhs = &CIte{lhs, a, b}
	}
	return lhs
}

func (p *cparser) unary() CExpr {
	t := p.peek()
	if t.kind == "op" && (t.s == "!" || t.s == "-") {
		p.next()
		x := p.unary()
		return &CUnary{t.s, x}
	}
	return p.postfix(p.primary())
}

func (p *cparser) postfix(x CExpr) CExpr {
	for {
		switch {
		case p.isOp("["):
			p.next()
			var lo, hi CExpr
			if p.isOp(":") {
				p.next()
				if !p.isOp("]") {
					hi = p.expr(0)
				}
				p.expectOp("]")
				x = &CSlice{x, nil, hi}
				continue
			}
			lo = p.expr(1)
			if p.isOp(":") {
				p.next()
				if !p.isOp("]") {
					hi = p.expr(1)
				}
				p.expectOp("]")
				x = &CSlice{x, lo, hi}
				continue
			}
			p.expectOp("]")
			x = &CIndex{x, lo}
		case p.isOp("."):
			p.next()
			id := p.next()
			if id.kind != "id" {
				p.fail("expected field name")
			}
			// qualified call like strings.ToUpper(x) is written as a single name
			if ident, ok := x.(*CIdent); ok && p.isOp("(") {
				x = p.call(ident.Name + "." + id.s)
				continue
			}
			x = &CSel{x, id.s}
		default:
			return x
		}
	}
}

func (p *cparser) call(name string) CExpr {
	p.expectOp("(")
	var args []CExpr
	for !p.isOp(")") {
		args = append(args, p.expr(0))
		if p.isOp(",") {
			p.next()
		} else {
			break
		}
	}
	p.expectOp(")")
	return &CCall{name, args}
}

func (p *cparser) primary() CExpr {
	t := p.next()
	switch t.kind {
	case "int":
		return &CInt{t.s}
	case "real":
		return &CReal{t.s}
	case "str":
		return &CStr{t.s}
	case "id":
		switch t.s {
		case "true":
			return &CBool{true}
		case "false":
			return &CBool{false}
		case "forall", "exists":
			q := &CQuant{Forall: t.s == "forall"}
			for {
				id := p.next()
				if id.kind != "id" {
					p.fail("expected bound variable")
				}
				ty := "int"
				if p.peek().kind == "id" {
					ty = p.next().s
				}
				q.Vars = append(q.Vars, CVar{id.s, ty})
				if p.isOp(",") {
					p.next()
					continue
				}
				break
			}
			for p.isOp("{") {
				p.next()
				var trig []CExpr
				for !p.isOp("}") {
					trig = append(trig, p.expr(1))
					if p.isOp(",") {
						p.next()
					}
				}
				p.expectOp("}")
				q.Triggers = append(q.Triggers, trig)
			}
			p.expectOp("::")
			q.Body = p.expr(0)
			return q
		}
		if p.isOp("(") {
			return p.call(t.s)
		}
		return &CIdent{t.s}
	case "op":
		if t.s == "(" {
			e := p.expr(0)
			p.expectOp(")")
			return e
		}
	}
	p.p--
	p.fail("unexpected token %q", t.s)
	return nil
}

// cexprString renders an expression back (for evidence / diagnostics).
func cexprString(e CExpr) string {
	switch x := e.(type) {
	case *CIdent:
		return x.Name
	case *CInt:
		return x.V
	case *CReal:
		return x.V
	case *CStr:
		return strconv.Quote(x.V)
	case *CBool:
		return fmt.Sprint(x.V)
	case *CUnary:
		return x.Op + cexprString(x.X)
	case *CBinary:
		return "(" + cexprString(x.X) + " " + x.Op + " " + cexprString(x.Y) + ")"
	case *CCall:
		var a []string
		for _, y := range x.Args {
			a = append(a, cexprString(y))
		}
		return x.Fn + "(" + strings.Join(a, ", ") + ")"
	case *CIndex:
		return cexprString(x.X) + "[" + cexprString(x.I) + "]"
	case *CSlice:
		lo, hi := "", ""
		if x.Lo != nil {
			lo = cexprString(x.Lo)
		}
		if x.Hi != nil {
			hi = cexprString(x.Hi)
		}
		return cexprString(x.X) + "[" + lo + ":" + hi + "]"
	case *CSel:
		return cexprString(x.X) + "." + x.Name
	case *CQuant:
		k := "exists"
		if x.Forall {
			k = "forall"
		}
		var vs []string
		for _, v := range x.Vars {
			vs = append(vs, v.Name+" "+v.Type)
		}
		return "(" + k + " " + strings.Join(vs, ", ") + " :: " + cexprString(x.Body) + ")"
	case *CIte:
		return "(" + cexprString(x.C) + " ? " + cexprString(x.A) + " : " + cexprString(x.B) + ")"
	}
	return "?"
}
